//go:build verif

package db

// Reference-model validation (not a check): enumerates CREATE TABLE statements
// of the C10 harness space, prints SQL text + what rmBuild says; the python
// driver compares with real SQLite (PRAGMA index_list / index_xinfo / table_xinfo).

import (
	"encoding/json"
	"fmt"
	"os"
	"strings"
	"testing"

	"github.com/alicebob/sqlittle/sql"
)

func TestVerifRefcheckSchema(t *testing.T) {
	out, err := os.Create(os.Getenv("VERIF_REFCHECK_OUT"))
	if err != nil {
		t.Fatal(err)
	}
	defer out.Close()
	enc := json.NewEncoder(out)
	type colOpt struct {
		typ, coll   string
		pk, pkDesc  bool
		unique      bool
	}
	var colOpts []colOpt
	for _, typ := range []string{"", "INTEGER", "TEXT"} {
		for _, coll := range []string{"", "nocase"} {
			for _, pk := range []int{0, 1, 2} {
				for _, u := range []bool{false, true} {
					colOpts = append(colOpts, colOpt{typ, coll, pk > 0, pk == 2, u})
				}
			}
		}
	}
	type icOpt struct {
		col        int
		desc, coll bool
	}
	var consOpts [][]interface{} // nil, or {kind, []icOpt}
	consOpts = append(consOpts, nil)
	for _, kind := range []string{"pk", "unique"} {
		for c0 := 0; c0 < 2; c0++ {
			for _, d0 := range []bool{false, true} {
				for _, k0 := range []bool{false, true} {
					consOpts = append(consOpts, []interface{}{kind, []icOpt{{c0, d0, k0}}})
					consOpts = append(consOpts, []interface{}{kind, []icOpt{{c0, d0, k0}, {1 - c0, false, false}}})
				}
			}
		}
	}
	n := 0
	for _, a := range colOpts {
		for _, b := range colOpts {
			if a.pk && b.pk {
				continue
			}
			for _, co := range consOpts {
				for _, without := range []bool{false, true} {
					ct := sql.CreateTableStmt{Table: "t", WithoutRowid: without}
					var parts []string
					npk := 0
					for i, o := range []colOpt{a, b} {
						c := sql.ColumnDef{Name: vhNames[i], Type: o.typ, Null: true, PrimaryKey: o.pk, Unique: o.unique, Collate: o.coll}
						s := vhNames[i] + " " + o.typ
						if o.coll != "" {
							s += " COLLATE " + o.coll
						}
						if o.pk {
							npk++
							s += " PRIMARY KEY"
							if o.pkDesc {
								c.PrimaryKeyDir = sql.Desc
								s += " DESC"
							}
						}
						if o.unique {
							s += " UNIQUE"
						}
						ct.Columns = append(ct.Columns, c)
						parts = append(parts, s)
					}
					if co != nil {
						kind := co[0].(string)
						if kind == "pk" && npk > 0 {
							continue
						}
						var ics []sql.IndexedColumn
						var ss []string
						for _, ic := range co[1].([]icOpt) {
							x := sql.IndexedColumn{Column: vhNames[ic.col]}
							s := vhNames[ic.col]
							if ic.coll {
								x.Collate = "nocase"
								s += " COLLATE nocase"
							}
							if ic.desc {
								x.SortOrder = sql.Desc
								s += " DESC"
							}
							ics = append(ics, x)
							ss = append(ss, s)
						}
						if kind == "pk" {
							npk++
							ct.Constraints = append(ct.Constraints, sql.TablePrimaryKey{IndexedColumns: ics})
							parts = append(parts, "PRIMARY KEY ("+strings.Join(ss, ", ")+")")
						} else {
							ct.Constraints = append(ct.Constraints, sql.TableUnique{IndexedColumns: ics})
							parts = append(parts, "UNIQUE ("+strings.Join(ss, ", ")+")")
						}
					}
					if without && npk != 1 {
						continue
					}
					text := "CREATE TABLE t (" + strings.Join(parts, ", ") + ")"
					if without {
						text += " WITHOUT ROWID"
					}
					rm := rmBuild(ct)
					type idx struct {
						Name string
						Cols []string
					}
					var idxs []idx
					colStr := func(c rmIdxCol) string {
						return fmt.Sprintf("%s/%s/%v", vhNames[c.col], normColl(c.coll), c.desc)
					}
					for _, ix := range rm.indexes {
						var cs []string
						for _, c := range ix.cols {
							cs = append(cs, colStr(c))
						}
						idxs = append(idxs, idx{ix.name, cs})
					}
					var pk []string
					for _, c := range rm.pkCols {
						pk = append(pk, colStr(c))
					}
					enc.Encode(map[string]interface{}{"sql": text, "rowid_alias": rm.rowidAlias, "indexes": idxs, "pk": pk, "without": without})
					n++
				}
			}
		}
	}
	t.Logf("%d statements", n)
}
