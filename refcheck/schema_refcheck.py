#!/usr/bin/env python3
"""Validates the C10 reference model (rmBuild) against real SQLite: reads the
JSON lines written by TestVerifRefcheckSchema and compares with PRAGMA output."""
import json, sqlite3, sys
bad = 0; n = 0; rejected = 0; badw = 0
for line in open(sys.argv[1]):
    c = json.loads(line); n += 1
    db = sqlite3.connect(":memory:")
    try:
        db.execute(c["sql"])
    except sqlite3.Error as e:
        rejected += 1
        continue
    # automatic indexes as SQLite sees them
    got = []
    pkcols = None
    for seq, name, unique, origin, partial in db.execute("PRAGMA index_list(t)"):
        cols = []
        for (rank, cid, cname, desc, coll, key) in db.execute(f"PRAGMA index_xinfo('{name}')"):
            if not key: continue
            coll = coll.lower()
            if coll == "binary": coll = ""
            cols.append(f"{cname}/{coll}/{'true' if desc else 'false'}")
        if c["without"] and origin == "pk":
            pkcols = cols
            continue
        got.append((name, cols))
    want = [(i["Name"], i["Cols"]) for i in (c["indexes"] or [])]
    # rowid alias: a rowid table whose pk column is INTEGER has no pk index
    ok = sorted(got) == sorted(want)
    if c["without"]:
        ok = ok and (pkcols == (c["pk"] or []))
    if not ok:
        bad += 1
        badw += 1 if c['without'] else 0
        if bad <= 15:
            print("MISMATCH", c["sql"], "\n   sqlite:", got, pkcols, "\n   model :", want, c["pk"])
print(f"{n} statements, {rejected} rejected by SQLite, {bad} mismatches ({badw} of them WITHOUT ROWID)")
sys.exit(1 if bad else 0)
