#!/bin/bash
# usage: seedcheck.sh <seed-id> <property> [worktree]   (seed-id e.g. C04 or C04b)
# 1. confirms the seeded change in its scratch worktree: builds, passes the
#    pinned suite (except baseline-failing TestIOZero), demo fails with / passes without
# 2. stores it under /verif/seeded/<seed-id>/
# 3. applies it to /repo, runs the property's quick check, reverts
set -u
id=$1; prop=$2; wt=${3:-/tmp/wt-$id}; sd=/tmp/seed-$id
export GOFLAGS=-mod=mod GOPROXY=off GOSUMDB=off GOTOOLCHAIN=local
demo=$(cd $wt && git status --porcelain | grep '^??' | grep '_test.go' | awk '{print $2}' | head -1)
pkgdir=$(dirname "$demo")
echo "== demo test: $demo (package ./$pkgdir)"
cd $wt
go build ./... || { echo "BUILD FAILS"; exit 1; }
others=$(go test -vet=off -count=1 ./... 2>&1 | grep -E '^--- FAIL' | grep -v -E 'TestIOZero|Seed|seed' | head -5)
[ -n "$others" ] && { echo "EXISTING TESTS FAIL WITH PATCH: $others"; }
withp=$(go test -vet=off -count=1 -run 'Seed|seed' ./$pkgdir 2>&1 | tail -3 | grep -c -E '^(FAIL|panic)')
git stash push -q -- $(git diff --name-only) 
withoutp=$(go test -vet=off -count=1 -run 'Seed|seed' ./$pkgdir 2>&1 | tail -3 | grep -c -E '^ok')
git stash pop -q
echo "== demo fails with patch: $withp ; passes without: $withoutp"
mkdir -p /verif/seeded/$id
git diff > /verif/seeded/$id/patch.diff
cp $wt/$demo /verif/seeded/$id/ 2>/dev/null
for f in $sd/*; do case "$f" in *.sqlite|*.py|*.json) cp "$f" /verif/seeded/$id/;; esac; done
cd /repo && git apply /verif/seeded/$id/patch.diff || { echo "PATCH DOES NOT APPLY TO /repo"; exit 1; }
cd /verif && timeout 1500 bin/vcheck run $prop -j 16 2>&1 | grep -E "^VIOLATION|^INCONCLUSIVE|^KNOWN|exit=" | cut -c1-220 | head -8
git -C /repo checkout -- .
git -C /repo status --short | head -3
