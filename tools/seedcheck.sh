#!/bin/bash
# usage: seedcheck.sh <seed-id> <property> [worktree]
# 1. confirms the seeded change (/tmp/seed-<id>/patch.diff + demo test) in its
#    scratch worktree: builds, passes the pinned suite (except baseline-failing
#    TestIOZero), demo fails with the patch / passes without
# 2. stores it under /verif/seeded/<seed-id>/
# 3. applies it to /repo, runs the property's quick check, reverts
set -u
id=$1; prop=$2; wt=${3:-/tmp/wt-$id}; sd=/tmp/seed-$id
export GOFLAGS=-mod=mod GOPROXY=off GOSUMDB=off GOTOOLCHAIN=local
cd $wt || exit 1
git checkout -q -- . 
demo=$(git status --porcelain | grep '^??' | grep '_test.go' | awk '{print $2}' | head -1)
pkgdir=$(dirname "$demo")
echo "== demo test: $demo (package ./$pkgdir)"
withoutp=$(go test -vet=off -count=1 -run 'Seed|seed' ./$pkgdir 2>&1 | tail -3 | grep -c -E '^ok')
git apply $sd/patch.diff || { echo "PATCH DOES NOT APPLY IN WORKTREE"; exit 1; }
go build ./... || { echo "BUILD FAILS"; exit 1; }
others=$(go test -vet=off -count=1 ./... 2>&1 | grep -E '^--- FAIL' | grep -v -E 'TestIOZero|Seed|seed' | head -5)
[ -n "$others" ] && { echo "EXISTING TESTS FAIL WITH PATCH: $others"; }
withp=$(go test -vet=off -count=1 -run 'Seed|seed' ./$pkgdir 2>&1 | tail -3 | grep -c -E '^(FAIL|panic)')
echo "== demo fails with patch: $withp ; passes without: $withoutp ; other failing tests: ${others:-none}"
mkdir -p /verif/seeded/$id
cp $sd/patch.diff /verif/seeded/$id/patch.diff
cp $wt/$demo /verif/seeded/$id/ 2>/dev/null
for f in $sd/*; do case "$f" in *.sqlite|*.sqlite-journal|*.py|*meta.json) cp "$f" /verif/seeded/$id/;; esac; done
# SEED_REPO / SEED_VERIF: run against a scratch checkout of /repo and a scratch
# copy of /verif (evidence and replays of the seeded tree then land in the copy)
R=${SEED_REPO:-/repo}; V=${SEED_VERIF:-/verif}
cd $R && git apply /verif/seeded/$id/patch.diff || { echo "PATCH DOES NOT APPLY TO $R"; exit 1; }
cd $V && timeout 1500 /verif/bin/vcheck run $prop --repo $R --verif $V -j ${SEED_J:-16} 2>&1 | grep -E "^VIOLATION|^INCONCLUSIVE|^KNOWN|exit=" | cut -c1-220 | head -6
git -C $R checkout -- .
git -C $R status --short | head -3
# the run above rewrote evidence/<prop>.json with the seeded tree's result: put
# the committed evidence (unchanged tree) back
[ "$V" = /verif ] && git -C /verif checkout -- evidence/$prop.json 2>/dev/null
