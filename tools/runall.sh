#!/bin/sh
# Runs every registered check of one tier in sequence (regenerates evidence/).
# usage: tools/runall.sh [quick|thorough]
tier=${1:-quick}
cd /verif || exit 2
rc=0
for p in C01 C02 C03 C04 C05 C06 C07 C08 C09 C10 C11 C12 C13 C14 C15 C16 C17 C18 C19 C20; do
  bin/vcheck run $p --tier $tier -j 16 2>&1 | grep -E "^VIOLATION|^INCONCLUSIVE|^KNOWN|exit=" | cut -c1-250
  [ "$(tail -c 200 evidence/$p.json | wc -c)" -gt 0 ] || rc=1
done
exit $rc
