#!/usr/bin/env python3
"""Generates /verif/MANIFEST.json from the table below (kept in one place so
the manifest stays valid while checks are added)."""
import json, sys, os

ENV = "GOFLAGS=-mod=mod GOPROXY=off GOSUMDB=off GOTOOLCHAIN=local"
TECH = "bounded symbolic execution of the real code from go/ssa into SMT-LIB2; z3 decides every obligation (unsat = holds for all values in the bounds, sat = model replayed natively)"
TRUST = ("trusts go/ssa lowering (x/tools v0.29.0), the executor in /verif/engine (each run replays solver models of completed paths "
         "against the native build and compares reach/observation logs), z3 4.8.12; loops unwound to a stated bound with unwinding assertions; ")

# id -> (claim text, level note extras, design ref)  -- only properties with a working check
CLAIMS = {}
NA = {}

def load():
    here = os.path.dirname(os.path.abspath(__file__))
    spec = json.load(open(os.path.join(here, "claims.json")))
    return spec

def main():
    spec = load()
    checks = []
    for pid, c in sorted(spec["claims"].items()):
        checks.append({
            "property_id": pid,
            "engine": "vcheck",
            "quick_cmd": f"bin/vcheck run {pid} --tier quick",
            "thorough_cmd": f"bin/vcheck run {pid} --tier thorough",
            "replay_cmd_template": "bin/vcheck replay {path}",
            "evidence_file": f"evidence/{pid}.json",
            "technique": TECH,
            "level_claimed": {"category": "model_checking", "design_ref": c["design_ref"], "text": c["text"]},
            "level_note": TRUST + c.get("note", ""),
        })
    na = [{"property_id": k, "reason": v} for k, v in sorted(spec["not_applicable"].items())]
    m = {
        "version": 1,
        "setup_cmd": f"mkdir -p bin && cd engine && {ENV} go build -o ../bin/vcheck .",
        "hooks": {
            "guard": "verif",
            "enable": "harness files (//go:build verif) are injected as overlays at load time (go/packages Overlay, -tags=verif) and at replay time (go test -tags verif -overlay); nothing is committed to /repo for hooks",
            "baseline_off_cmd": "cd /repo && go test -vet=off -count=1 ./...",
            "source_commits": [],
            "add_only": True,
        },
        "engines": [{"name": "vcheck", "path": "engine", "serves_properties": sorted(spec["claims"].keys()),
                     "kind_free_text": "SSA symbolic executor (Go) + z3; native replay of every model"}],
        "checks": checks,
        "not_applicable": na,
        "notes": spec.get("notes", ""),
    }
    out = os.path.join(os.path.dirname(os.path.dirname(os.path.abspath(__file__))), "MANIFEST.json")
    json.dump(m, open(out, "w"), indent=1)
    print("wrote", out, len(checks), "checks,", len(na), "not applicable")

main()
