#!/bin/sh
# Runs the repository's own suite (guard off) and fails on anything but the
# baseline's known always-failing TestIOZero.
cd /repo && go test -vet=off -count=1 ./... 2>&1 | grep -E "^--- FAIL" | grep -v "TestIOZero" && { echo "UNEXPECTED FAILURES"; exit 1; }
cd /repo && go build ./... || exit 1
echo "repo suite ok (only baseline-failing TestIOZero fails)"
