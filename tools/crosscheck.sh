#!/bin/sh
# Cross-solver agreement (run after encoding changes; not part of any registered
# command): the listed harnesses are decided by z3 5.1.0, z3 4.8.12 and cvc5;
# paths, violations and unknowns per harness must be identical.
cd /verif || exit 2
H="VH_C14_varint_decode VH_C14_twos24 VH_C14_twos48 VH_C14_local_table VH_C04_rowid VH_C04_empty VH_C15_short VH_C15_open VH_C09_decision VH_C05_overflow_chain VH_C05_cell_table_interior VH_C17_table_stop VH_C08_history VH_C12_table_overflow VH_C19_stream"
rc=0
for sv in /usr/local/bin/z3-new z3 cvc5; do
  timeout 3000 bin/vcheck harness $H --solver $sv -j 8 2>/dev/null | python3 -c "
import json,sys
txt=sys.stdin.read(); dec=json.JSONDecoder(); i=0; rows=[]
while i<len(txt):
    while i<len(txt) and txt[i] in ' \n': i+=1
    if i>=len(txt): break
    o,j=dec.raw_decode(txt,i); i=j
    rows.append((o['name'],o['paths'],len(o.get('violations') or []),o.get('unknown',0),bool(o.get('unsupported')),tuple(o.get('missing_reach') or [])))
for r in sorted(rows): print(*r)
" > /tmp/crosscheck.$(basename $sv).txt
done
for sv in z3 cvc5; do
  if diff /tmp/crosscheck.z3-new.txt /tmp/crosscheck.$sv.txt >/dev/null; then echo "agree: z3-new vs $sv"; else echo "DISAGREE: z3-new vs $sv"; diff /tmp/crosscheck.z3-new.txt /tmp/crosscheck.$sv.txt | head; rc=1; fi
done
cat /tmp/crosscheck.z3-new.txt
exit $rc
