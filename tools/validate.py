#!/usr/bin/env python3
"""Validates MANIFEST.json and evidence/*.json against the task's schemas
(run with python3-vt: jsonschema lives in the tooling venv)."""
import json, sys, glob, os
import jsonschema
root = '/verif'
bad = 0
man = json.load(open(f'{root}/MANIFEST.json'))
try:
    jsonschema.validate(man, json.load(open('/root/.vp/MANIFEST.schema.json')))
    print('MANIFEST.json ok')
except Exception as e:
    bad += 1
    print('MANIFEST.json INVALID:', str(e)[:300])
sch = json.load(open('/root/.vp/EVIDENCE.schema.json'))
for f in sorted(glob.glob(f'{root}/evidence/*.json')):
    try:
        ev = json.load(open(f))
        jsonschema.validate(ev, sch)
        inc = ev['coverage'].get('inconclusive') or []
        print(os.path.basename(f), 'ok', 'tier=' + ev.get('tier', '?'), 'violations=%d' % ev.get('violations', -1), 'inconclusive=%d' % len(inc))
        if ev.get('violations', 0) or inc:
            bad += 1
    except Exception as e:
        bad += 1
        print(os.path.basename(f), 'INVALID:', str(e)[:300])
sys.exit(1 if bad else 0)
