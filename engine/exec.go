package main

// The SSA symbolic executor: one call = exploration of all feasible paths of
// the callee from one state; forks are decided by the solver.

import (
	"time"
	"fmt"
	"go/constant"
	"go/token"
	"go/types"
	"math"
	"os"
	"sort"
	"strings"

	"golang.org/x/tools/go/ssa"
)

type fnInfo struct {
	idx map[ssa.Value]int
	n   int
}

type PanicInfo struct {
	val       Value
	msg       string
	recovered bool
}

type Outcome struct {
	st  *State
	ret Value
	pan *PanicInfo
}

type deferred struct {
	fv   FuncV
	args []Value
}

type ctx struct {
	st     *State
	fn     *ssa.Function
	env    []Value
	block  *ssa.BasicBlock
	prev   *ssa.BasicBlock
	pc     int
	defers []deferred
	visits map[*ssa.BasicBlock]int
	pan    *PanicInfo // running defers because of a panic
	ret    Value      // pending return value while running defers
}

func (c *ctx) clone() *ctx {
	n := *c
	n.st = c.st.clone()
	n.env = append([]Value(nil), c.env...)
	n.defers = append([]deferred(nil), c.defers...)
	if c.visits != nil {
		n.visits = make(map[*ssa.BasicBlock]int, len(c.visits))
		for k, v := range c.visits {
			n.visits[k] = v
		}
	}
	if c.pan != nil {
		p := *c.pan
		n.pan = &p
	}
	return &n
}

// Violation is a failed obligation with a model.
type Violation struct {
	Kind    string // assert | bounds | nil | typeassert | div | panic | unwind | negmake | shift
	Site    string // function:line
	Func    string
	Msg     string
	Inputs  []InputVal
	Harness string
}

type InputVal struct {
	Kind string `json:"k"`
	V    uint64 `json:"v,omitempty"`
	B    string `json:"b,omitempty"` // hex bytes
}

type Exec struct {
	prog      *ssa.Program
	tt        *TermTable
	sol       *Solver
	base      map[int]*Object
	baseNext  int
	strCache  map[string]int
	globals   map[*ssa.Global]int
	finfo     map[*ssa.Function]*fnInfo
	intr      map[string]intrinsic
	storeHook func(st *State, obj int)

	// configuration
	unwind    int
	maxSteps  int
	maxPaths  int
	mergeSet  map[string]bool
	tier      int
	harness   string
	initDone  map[*ssa.Package]bool
	initAllow map[string]bool

	// results
	violations    []Violation
	vioSeen       map[string]bool
	vioCount      map[string]int
	paths         int
	deadPaths     int
	obligations   int
	obTrivial     int
	reach         map[string]int
	reachModels   map[string][]InputVal
	funcs         map[string]bool
	boundExceeded []string
	unsupportedMsg []string
	cuts          map[string]int
	assumes       map[string]bool
	inconclusive  []string
	samplePaths   []string
	forks         int
	merges        int
	mapRanges     int
	cur           ssa.Instruction
	modelHits     int
	shard, shards int
	regions       map[*ssa.BasicBlock]regionInfo
	noIfConv      bool
	ifConverted   int
	totalSteps    int
	started       time.Time
	wallBudget    time.Duration
	smallBuf      int
	initFailed    []string
	callStack     []string
	asserts       int
	maxAlloc      int
	sharedWrites  []string
	sharedWrite   func(st *State, obj int) // C20 frame hook
	maxViolations int
}

type intrinsic func(ex *Exec, st *State, call *ssa.CallCommon, args []Value) []Outcome

func (ex *Exec) info(fn *ssa.Function) *fnInfo {
	if fi, ok := ex.finfo[fn]; ok {
		return fi
	}
	fi := &fnInfo{idx: map[ssa.Value]int{}}
	for _, p := range fn.Params {
		fi.idx[p] = fi.n
		fi.n++
	}
	for _, p := range fn.FreeVars {
		fi.idx[p] = fi.n
		fi.n++
	}
	for _, b := range fn.Blocks {
		for _, in := range b.Instrs {
			if v, ok := in.(ssa.Value); ok {
				fi.idx[v] = fi.n
				fi.n++
			}
		}
	}
	ex.finfo[fn] = fi
	return fi
}

func (ex *Exec) pos(in ssa.Instruction) string {
	fn := in.Parent()
	p := ex.prog.Fset.Position(in.Pos())
	if !p.IsValid() {
		// search nearby instruction with position
		for _, i2 := range in.Block().Instrs {
			if q := ex.prog.Fset.Position(i2.Pos()); q.IsValid() {
				p = q
				break
			}
		}
	}
	f := p.Filename
	if i := strings.LastIndex(f, "/"); i >= 0 {
		f = f[i+1:]
	}
	return fmt.Sprintf("%s@%s:%d", fn.String(), f, p.Line)
}

// ---- solver helpers ----

// wantTerms lists every solver variable a model of st must cover.
func (ex *Exec) wantTerms(st *State) []*Term {
	var want []*Term
	for _, in := range st.inputs {
		switch in.kind {
		case "choice", "stubchoice":
		case "bytes":
			want = append(want, in.bs...)
		default:
			want = append(want, in.t)
		}
	}
	want = append(want, st.aux...)
	return want
}

// solve decides pc ∧ extra and, when satisfiable, returns a model.
func (ex *Exec) solve(st *State, extra ...*Term) (SatResult, *Model) {
	for _, e := range extra {
		if e.IsConst() && e.c == 0 {
			return Unsat, nil
		}
	}
	want := ex.wantTerms(st)
	conj := append(append([]*Term(nil), st.pc...), extra...)
	r, vals := ex.sol.Check(conj, wantOrEmpty(want))
	if r != Sat {
		return r, nil
	}
	m := newModel()
	for i, t := range want {
		m.vals[t] = vals[i]
		if t.op == OSelect {
			m.arrs[t.a[0]] = true
		}
	}
	return Sat, m
}

// holds evaluates c under the state's cached model: (value, known).
func (ex *Exec) holds(st *State, c *Term) (bool, bool) {
	if c.IsConst() {
		return c.c != 0, true
	}
	if st.model == nil {
		return false, false
	}
	v, ok := st.model.eval(ex.tt, c)
	return v != 0, ok
}

func (ex *Exec) feasible(st *State, extra ...*Term) SatResult {
	all := true
	for _, e := range extra {
		if e.IsConst() && e.c == 0 {
			return Unsat
		}
		if v, ok := ex.holds(st, e); !ok || !v {
			all = false
		}
	}
	if all && st.model != nil {
		ex.modelHits++
		return Sat
	}
	if len(extra) == 0 {
		// path condition alone: refresh the model
		r, m := ex.solve(st)
		if r == Sat {
			st.model = m
		}
		return r
	}
	conj := append(append([]*Term(nil), st.pc...), extra...)
	r, _ := ex.sol.Check(conj, nil)
	return r
}

func (ex *Exec) assume(st *State, c *Term) {
	if c.IsConst() {
		if c.c == 0 {
			st.dead = true
		}
		return
	}
	for _, p := range st.pc {
		if p == c {
			return
		}
	}
	st.pc = append(st.pc, c)
	if st.model != nil {
		if v, ok := ex.holds(st, c); !ok || !v {
			st.model = nil
		}
	}
}

func (ex *Exec) inputVals(st *State, m *Model) []InputVal {
	var res []InputVal
	get := func(t *Term) uint64 {
		v, _ := m.eval(ex.tt, t)
		return v
	}
	for _, in := range st.inputs {
		switch in.kind {
		case "choice", "stubchoice":
			res = append(res, InputVal{Kind: in.kind, V: uint64(in.n)})
		case "bytes":
			b := make([]byte, len(in.bs))
			for i := range in.bs {
				b[i] = byte(get(in.bs[i]))
			}
			res = append(res, InputVal{Kind: "bytes", B: fmt.Sprintf("%x", b), V: uint64(len(b))})
		default:
			res = append(res, InputVal{Kind: in.kind, V: get(in.t)})
		}
	}
	return res
}

func (ex *Exec) modelFor(st *State, extra ...*Term) (SatResult, []InputVal) {
	all := st.model != nil
	for _, e := range extra {
		if v, ok := ex.holds(st, e); !ok || !v {
			all = false
		}
	}
	if all {
		return Sat, ex.inputVals(st, st.model)
	}
	r, m := ex.solve(st, extra...)
	if r != Sat {
		return r, nil
	}
	if len(extra) == 0 {
		st.model = m
	}
	return Sat, ex.inputVals(st, m)
}

func wantOrEmpty(w []*Term) []*Term {
	if w == nil {
		return []*Term{}
	}
	return w
}

// oblige checks that ok holds on every model of the path condition. On
// failure a violation is recorded; the path continues under ok. Returns false
// if the path cannot continue.
func (ex *Exec) oblige(st *State, ok *Term, kind, site, fn, msg string) bool {
	return ex.obligeP(st, ok, nil, kind, site, fn, msg)
}

// obligeP: as oblige; prefer (may be nil) is a stronger violation condition
// whose models are robust against runtime details (e.g. spare slice capacity);
// it is tried first when a counterexample is extracted.
func (ex *Exec) obligeP(st *State, ok, prefer *Term, kind, site, fn, msg string) bool {
	ex.obligations++
	if ok.IsConst() && ok.c != 0 {
		ex.obTrivial++
		return true
	}
	for _, p := range st.pc {
		if p == ok {
			ex.obTrivial++
			return true
		}
	}
	nok := ex.tt.BNot(ok)
	var r SatResult
	if v, known := ex.holds(st, nok); known && v {
		r = Sat // the cached model already violates it
	} else {
		r = ex.feasible(st, nok)
	}
	switch r {
	case Unsat:
		return true
	case Unknown:
		ex.inconclusive = append(ex.inconclusive, fmt.Sprintf("%s %s: solver unknown", kind, site))
		ex.assume(st, ok)
		return !st.dead
	}
	if prefer != nil && ex.feasible(st, nok, prefer) == Sat {
		ex.recordViolation(st, kind, site, fn, msg, nok, prefer)
	} else {
		ex.recordViolation(st, kind, site, fn, msg, nok)
	}
	if ok.IsConst() {
		return false
	}
	ex.assume(st, ok)
	if ex.feasible(st) != Sat {
		return false
	}
	return true
}

func (ex *Exec) recordViolation(st *State, kind, site, fn, msg string, extra ...*Term) {
	if st.initMode {
		ex.initFailed = append(ex.initFailed, fmt.Sprintf("init: %s at %s: %s", kind, site, msg))
		return
	}
	key := kind + "|" + site + "|" + msg
	if kind == "assert" {
		// one counterexample per case split of the harness
		for _, in := range st.inputs {
			if in.kind == "choice" {
				key += fmt.Sprintf(",%d", in.n)
			}
		}
	}
	if ex.vioSeen[key] {
		return
	}
	if len(ex.violations) >= ex.maxViolations {
		return
	}
	// at most 3 counterexamples per (kind, site, message): leave room for others
	base := kind + "|" + site + "|" + msg + "#n"
	if ex.vioCount == nil {
		ex.vioCount = map[string]int{}
	}
	if ex.vioCount[base] >= 3 {
		return
	}
	ex.vioCount[base]++
	r, vals := ex.modelFor(st, extra...)
	if r != Sat {
		ex.inconclusive = append(ex.inconclusive, fmt.Sprintf("%s %s: model query %v", kind, site, r))
		return
	}
	ex.vioSeen[key] = true
	ex.violations = append(ex.violations, Violation{Kind: kind, Site: site, Func: fn, Msg: msg, Inputs: vals, Harness: ex.harness})
}

// split returns the states continuing under cond and under !cond (nil when
// infeasible). st itself is reused for one side.
func (ex *Exec) split(st *State, cond *Term) (t, f *State) {
	if cond.IsConst() {
		if cond.c != 0 {
			return st, nil
		}
		return nil, st
	}
	for _, p := range st.pc {
		if p == cond {
			return st, nil
		}
	}
	nc := ex.tt.BNot(cond)
	for _, p := range st.pc {
		if p == nc {
			return nil, st
		}
	}
	if st.model == nil {
		if r, m := ex.solve(st); r == Sat {
			st.model = m
		} else if r == Unsat {
			st.dead = true
			return nil, nil
		}
	}
	if v, known := ex.holds(st, cond); known {
		// the cached model takes one side; ask the solver about the other
		other := nc
		if !v {
			other = cond
		}
		ex.modelHits++
		r, m := ex.solve(st, other)
		if r == Unknown {
			ex.inconclusive = append(ex.inconclusive, "branch feasibility unknown")
		}
		if r != Sat {
			// only the model's side
			if v {
				ex.assume(st, cond)
				return st, nil
			}
			ex.assume(st, nc)
			return nil, st
		}
		ex.forks++
		o := st.clone()
		if v {
			ex.assume(st, cond)
			ex.assume(o, nc)
			o.model = m
			return st, o
		}
		ex.assume(st, nc)
		ex.assume(o, cond)
		o.model = m
		return o, st
	}
	rt, mt := ex.solve(st, cond)
	if rt == Unsat {
		ex.assume(st, nc)
		return nil, st
	}
	rf, mf := ex.solve(st, nc)
	if rf == Unsat {
		ex.assume(st, cond)
		if mt != nil {
			st.model = mt
		}
		return st, nil
	}
	if rt == Unknown || rf == Unknown {
		ex.inconclusive = append(ex.inconclusive, "branch feasibility unknown")
	}
	ex.forks++
	f = st.clone()
	ex.assume(st, cond)
	ex.assume(f, nc)
	st.model, f.model = mt, mf
	return st, f
}

type enumRes struct {
	st *State
	v  uint64
}

// enumerate forks st over every feasible value of t (at most limit).
func (ex *Exec) enumerate(st *State, t *Term, limit int) []enumRes {
	if t.IsConst() {
		return []enumRes{{st, t.c}}
	}
	var res []enumRes
	var excl []*Term
	for {
		conj := append(append([]*Term(nil), st.pc...), excl...)
		r, vals := ex.sol.Check(conj, []*Term{t})
		if r == Unsat {
			break
		}
		if r == Unknown {
			ex.inconclusive = append(ex.inconclusive, "enumerate: unknown")
			break
		}
		v := vals[0]
		if len(res) >= limit {
			ex.boundExceeded = append(ex.boundExceeded, fmt.Sprintf("enumerate: more than %d values", limit))
			break
		}
		c := ex.tt.BV(v, t.w)
		if t.kind == KBool {
			c = ex.tt.Bool(v != 0)
		}
		ns := st.clone()
		ex.assume(ns, ex.tt.Eq(t, c))
		res = append(res, enumRes{ns, v})
		excl = append(excl, ex.tt.BNot(ex.tt.Eq(t, c)))
	}
	if len(res) > 1 {
		ex.forks += len(res) - 1
	}
	sort.Slice(res, func(i, j int) bool { return res[i].v < res[j].v })
	return res
}

// maxValue finds the largest feasible unsigned value of t, capped.
func (ex *Exec) maxValue(st *State, t *Term, capV uint64) uint64 {
	if t.IsConst() {
		return t.c
	}
	lo, hi := uint64(0), capV
	// is anything above cap feasible?
	if ex.feasible(st, ex.tt.Ult(ex.tt.BV(capV, t.w), t)) != Unsat {
		return capV + 1
	}
	for lo < hi {
		mid := lo + (hi-lo+1)/2
		if ex.feasible(st, ex.tt.Ule(ex.tt.BV(mid, t.w), t)) != Unsat {
			lo = mid
		} else {
			hi = mid - 1
		}
	}
	return lo
}

// ---- value evaluation ----

func (ex *Exec) constVal(st *State, c *ssa.Const) Value {
	t := c.Type()
	if c.Value == nil {
		return ex.zero(t)
	}
	switch u := t.Underlying().(type) {
	case *types.Basic:
		switch {
		case u.Info()&types.IsBoolean != 0:
			return ex.tt.Bool(constant.BoolVal(c.Value))
		case u.Info()&types.IsInteger != 0:
			if u.Info()&types.IsUnsigned != 0 {
				v, _ := constant.Uint64Val(constant.ToInt(c.Value))
				return ex.tt.BV(v, intWidth(u))
			}
			v, _ := constant.Int64Val(constant.ToInt(c.Value))
			return ex.tt.BV(uint64(v), intWidth(u))
		case u.Info()&types.IsFloat != 0:
			f, _ := constant.Float64Val(c.Value)
			if u.Kind() == types.Float32 {
				return ex.tt.F32(float32(f))
			}
			return ex.tt.FP(f)
		case u.Info()&types.IsString != 0:
			return ex.constStr(st, constant.StringVal(c.Value))
		}
	}
	unsup("const of type %s", t)
	return nil
}

func (ex *Exec) globalPtr(st *State, g *ssa.Global) Ptr {
	id, ok := ex.globals[g]
	if !ok {
		ex.baseNext--
		id = ex.baseNext
		ex.globals[g] = id
		elem := g.Type().(*types.Pointer).Elem()
		ex.base[id] = &Object{typ: elem, val: ex.zero(elem), name: g.String()}
		if g.Pkg != nil && !ex.initDone[g.Pkg] && ex.initAllow[g.Pkg.Pkg.Path()] {
			ex.runInit(g.Pkg)
		}
	}
	return Ptr{obj: id}
}

func (ex *Exec) val(c *ctx, v ssa.Value) Value {
	switch x := v.(type) {
	case *ssa.Const:
		return ex.constVal(c.st, x)
	case *ssa.Global:
		return ex.globalPtr(c.st, x)
	case *ssa.Function:
		return FuncV{fn: x}
	case *ssa.Builtin:
		return FuncV{builtin: "builtin:" + x.Name()}
	}
	i, ok := ex.info(c.fn).idx[v]
	if !ok {
		unsup("value %s not numbered in %s", v.Name(), c.fn)
	}
	return c.env[i]
}

func (ex *Exec) set(c *ctx, v ssa.Value, x Value) {
	c.env[ex.info(c.fn).idx[v]] = x
}

// ---- calling ----

func (ex *Exec) callFunc(st *State, fv FuncV, args []Value, call *ssa.CallCommon) []Outcome {
	if fv.builtin != "" {
		return ex.callBuiltin(st, fv, args, call)
	}
	fn := fv.fn
	if fn == nil {
		unsup("call of nil func value (missing obligation)")
	}
	name := fn.String()
	if in, ok := ex.intr[name]; ok {
		return in(ex, st, call, args)
	}
	if strings.Contains(name, "erif") {
		if in, ok := ex.intr["verif:"+strings.ToLower(fn.Name())]; ok && fn.Pkg != nil && strings.Contains(fn.Pkg.Pkg.Path(), "sqlittle") {
			return in(ex, st, call, args)
		}
	}
	if fn.Name() == "init" && fn.Pkg != nil && fn.Parent() == nil && fn.Signature.Recv() == nil && fn == fn.Pkg.Func("init") {
		if ex.initAllow[fn.Pkg.Pkg.Path()] {
			ex.runInit(fn.Pkg)
		}
		return ret1(st, nil)
	}
	if fn.Blocks == nil {
		unsup("function without body: %s", name)
	}
	if fn.Pkg != nil && !ex.initDone[fn.Pkg] && ex.initAllow[fn.Pkg.Pkg.Path()] {
		ex.runInit(fn.Pkg)
	}
	if st.depth > 200 {
		ex.boundExceeded = append(ex.boundExceeded, "call depth > 200 in "+name)
		if r, m := ex.modelFor(st); r == Sat {
			ex.recordViolationRaw(Violation{Kind: "unwind", Site: name, Func: name, Msg: "call depth exceeds 200 (unbounded recursion)", Inputs: m, Harness: ex.harness})
		}
		return nil
	}
	ex.funcs[name] = true
	merge := ex.mergeSet[name] || ex.mergeSet[fn.Name()]
	var pre *State
	if merge {
		pre = st.clone()
	}
	st.depth++
	ex.callStack = append(ex.callStack, name)
	outs := ex.runFunc(st, fn, args, fv.env)
	ex.callStack = ex.callStack[:len(ex.callStack)-1]
	for _, o := range outs {
		o.st.depth--
	}
	if merge && len(outs) > 1 {
		outs = ex.mergeOutcomes(pre, outs)
	}
	return outs
}

func (ex *Exec) runFunc(st *State, fn *ssa.Function, args []Value, free []Value) []Outcome {
	fi := ex.info(fn)
	c := &ctx{st: st, fn: fn, env: make([]Value, fi.n), block: fn.Blocks[0]}
	if len(args) != len(fn.Params) {
		unsup("arity mismatch calling %s: %d vs %d", fn, len(args), len(fn.Params))
	}
	for i, p := range fn.Params {
		c.env[fi.idx[p]] = args[i]
	}
	for i, p := range fn.FreeVars {
		c.env[fi.idx[p]] = free[i]
	}
	work := []*ctx{c}
	var outs []Outcome
	for len(work) > 0 {
		cur := work[len(work)-1]
		work = work[:len(work)-1]
		ex.runCtx(cur, &work, &outs)
		if ex.maxPaths > 0 && ex.paths+len(outs) > ex.maxPaths*4 {
			ex.boundExceeded = append(ex.boundExceeded, "path budget")
			break
		}
	}
	return outs
}

// leave unwinds a panicking frame: runs the remaining deferred calls (each
// may recover), then either resumes at the Recover block / returns zero
// results, or propagates the panic to the caller.
func (ex *Exec) leave(c *ctx, work *[]*ctx, outs *[]Outcome) {
	if len(c.defers) == 0 {
		if c.pan != nil && !c.pan.recovered {
			*outs = append(*outs, Outcome{st: c.st, pan: c.pan})
			return
		}
		c.pan = nil
		if c.fn.Recover != nil {
			c.prev = c.block
			c.block = c.fn.Recover
			c.pc = 0
			*work = append(*work, c)
			return
		}
		*outs = append(*outs, Outcome{st: c.st, ret: ex.zeroResults(c.fn)})
		return
	}
	d := c.defers[len(c.defers)-1]
	c.defers = c.defers[:len(c.defers)-1]
	saved := c.st.curPanic
	if c.pan != nil && !c.pan.recovered {
		cp := *c.pan
		c.st.curPanic = &cp
	} else {
		c.st.curPanic = nil
	}
	res := ex.callFunc(c.st, d.fv, d.args, nil)
	for i, o := range res {
		ci := c
		if i < len(res)-1 {
			ci = c.clone()
		}
		ci.st = o.st
		p := o.st.curPanic
		o.st.curPanic = saved
		if o.pan != nil {
			// a panic inside the deferred call replaces the current one
			np := *o.pan
			ci.pan = &np
		} else if p != nil && p.recovered && ci.pan != nil {
			np := *ci.pan
			np.recovered = true
			ci.pan = &np
		}
		ex.leave(ci, work, outs)
	}
}

func (ex *Exec) zeroResults(fn *ssa.Function) Value {
	res := fn.Signature.Results()
	switch res.Len() {
	case 0:
		return nil
	case 1:
		return ex.zero(res.At(0).Type())
	}
	t := make(TupleV, res.Len())
	for i := range t {
		t[i] = ex.zero(res.At(i).Type())
	}
	return t
}

// startPanic puts the ctx in panic mode and unwinds.
func (ex *Exec) startPanic(c *ctx, p *PanicInfo, work *[]*ctx, outs *[]Outcome) {
	c.pan = p
	ex.leave(c, work, outs)
}

func (ex *Exec) enterBlock(c *ctx, b *ssa.BasicBlock, symbolic bool) bool {
	c.prev = c.block
	c.block = b
	c.pc = 0
	if symbolic {
		if c.visits == nil {
			c.visits = map[*ssa.BasicBlock]int{}
		}
		c.visits[b]++
		if c.visits[b] > ex.unwind {
			ex.boundExceeded = append(ex.boundExceeded, fmt.Sprintf("unwind %d exceeded at %s block %d", ex.unwind, c.fn, b.Index))
			r, m := ex.modelFor(c.st)
			if r == Sat {
				ex.recordViolationRaw(Violation{Kind: "unwind", Site: fmt.Sprintf("%s#%d", c.fn, b.Index), Func: c.fn.String(), Msg: fmt.Sprintf("loop bound %d exceeded", ex.unwind), Inputs: m, Harness: ex.harness})
			}
			return false
		}
	}
	return true
}

func (ex *Exec) recordViolationRaw(v Violation) {
	key := v.Kind + "|" + v.Site + "|" + v.Msg
	if ex.vioSeen[key] || len(ex.violations) >= ex.maxViolations {
		return
	}
	ex.vioSeen[key] = true
	ex.violations = append(ex.violations, v)
}

func (ex *Exec) runCtx(c *ctx, work *[]*ctx, outs *[]Outcome) {
	for {
		if c.st.dead {
			ex.deadPaths++
			return
		}
		c.st.steps++
		ex.totalSteps++
		if ex.totalSteps&0x3fff == 0 && ex.wallBudget > 0 && time.Since(ex.started) > ex.wallBudget {
			unsup("wall-clock budget of %v exhausted (paths=%d, forks=%d) — bound too large for this tier", ex.wallBudget, ex.paths, ex.forks)
		}
		if c.st.steps > ex.maxSteps {
			ex.boundExceeded = append(ex.boundExceeded, fmt.Sprintf("step budget %d exhausted in %s", ex.maxSteps, c.fn))
			r, m := ex.modelFor(c.st)
			if r == Sat {
				ex.recordViolationRaw(Violation{Kind: "unwind", Site: c.fn.String(), Func: c.fn.String(), Msg: "step budget exhausted (possible non-termination)", Inputs: m, Harness: ex.harness})
			}
			return
		}
		in := c.block.Instrs[c.pc]
		ex.cur = in
		if !ex.step(c, in, work, outs) {
			return
		}
	}
}

// step executes one instruction. It returns true when c simply continues with
// the next instruction (c.pc already advanced / block changed).
func (ex *Exec) step(c *ctx, in ssa.Instruction, work *[]*ctx, outs *[]Outcome) bool {
	tt := ex.tt
	st := c.st
	switch x := in.(type) {
	case *ssa.DebugRef:
	case *ssa.Alloc:
		elem := x.Type().(*types.Pointer).Elem()
		id := st.alloc(elem, ex.zero(elem), x.Comment)
		ex.set(c, x, Ptr{obj: id})
	case *ssa.Phi:
		// evaluate all phis of the block simultaneously
		var vals []Value
		var phis []*ssa.Phi
		for i := c.pc; i < len(c.block.Instrs); i++ {
			p, ok := c.block.Instrs[i].(*ssa.Phi)
			if !ok {
				break
			}
			idx := -1
			for k, pr := range c.block.Preds {
				if pr == c.prev {
					idx = k
					break
				}
			}
			if idx < 0 {
				unsup("phi without matching predecessor")
			}
			vals = append(vals, ex.val(c, p.Edges[idx]))
			phis = append(phis, p)
		}
		for i, p := range phis {
			ex.set(c, p, vals[i])
		}
		c.pc += len(phis)
		return true
	case *ssa.BinOp:
		v, ok := ex.binop(c, x, x.Op, ex.val(c, x.X), ex.val(c, x.Y), x.X.Type(), x.Y.Type())
		if !ok {
			return false
		}
		ex.set(c, x, v)
	case *ssa.UnOp:
		switch x.Op {
		case token.MUL:
			p := ex.val(c, x.X).(Ptr)
			if !ex.nilCheck(c, x, p) {
				return false
			}
			ex.set(c, x, ex.load(st, p))
		case token.SUB:
			v := ex.val(c, x.X).(*Term)
			if v.kind == KFP || v.kind == KF32 {
				ex.set(c, x, tt.FNeg(v))
			} else {
				ex.set(c, x, tt.Neg(v))
			}
		case token.NOT:
			ex.set(c, x, tt.BNot(ex.val(c, x.X).(*Term)))
		case token.XOR:
			ex.set(c, x, tt.Not(ex.val(c, x.X).(*Term)))
		case token.ARROW:
			return ex.chanRecv(c, x, work, outs)
		default:
			unsup("unop %s", x.Op)
		}
	case *ssa.Convert:
		res := ex.convert(c, x, ex.val(c, x.X), x.X.Type(), x.Type())
		return ex.continueMulti(c, x, res, work)
	case *ssa.ChangeType:
		ex.set(c, x, ex.val(c, x.X))
	case *ssa.ChangeInterface:
		ex.set(c, x, ex.val(c, x.X))
	case *ssa.MakeInterface:
		ex.set(c, x, IfaceV{typ: x.X.Type(), val: ex.val(c, x.X)})
	case *ssa.SliceToArrayPointer:
		s := ex.val(c, x.X).(SliceV)
		n := x.Type().(*types.Pointer).Elem().Underlying().(*types.Array).Len()
		if !ex.oblige(st, tt.Sle(tt.BV(uint64(n), 64), s.len), "bounds", ex.pos(x), c.fn.String(), "slice to array pointer: length") {
			return false
		}
		if !s.off.IsConst() || s.off.c != 0 || len(s.pre) != 0 {
			unsup("SliceToArrayPointer with offset")
		}
		ex.set(c, x, Ptr{obj: s.obj})
	case *ssa.Extract:
		ex.set(c, x, ex.val(c, x.Tuple).(TupleV)[x.Index])
	case *ssa.Field:
		ex.set(c, x, ex.val(c, x.X).(*StructV).f[x.Field])
	case *ssa.FieldAddr:
		p := ex.val(c, x.X).(Ptr)
		if !ex.nilCheck(c, x, p) {
			return false
		}
		np := append(append([]PE(nil), p.path...), PE{field: x.Field})
		ex.set(c, x, Ptr{p.obj, np})
	case *ssa.Index:
		idx := ex.toInt64(ex.val(c, x.Index).(*Term), x.Index.Type())
		switch xv := ex.val(c, x.X).(type) {
		case *ArrayV:
			n := tt.BV(uint64(len(xv.e)), 64)
			if !ex.oblige(st, tt.Ult(idx, n), "bounds", ex.pos(x), c.fn.String(), "array index out of range") {
				return false
			}
			if idx.IsConst() {
				ex.set(c, x, xv.e[idx.c])
			} else {
				ex.set(c, x, ex.symRead(xv, idx, nil))
			}
		case SliceV: // string
			if !ex.oblige(st, tt.Ult(idx, xv.len), "bounds", ex.pos(x), c.fn.String(), "string index out of range") {
				return false
			}
			ex.set(c, x, ex.elemAt(st, xv, idx))
		default:
			unsup("Index on %T", xv)
		}
	case *ssa.IndexAddr:
		idx := ex.toInt64(ex.val(c, x.Index).(*Term), x.Index.Type())
		switch xv := ex.val(c, x.X).(type) {
		case SliceV:
			if !ex.oblige(st, tt.Ult(idx, xv.len), "bounds", ex.pos(x), c.fn.String(), "index out of range") {
				return false
			}
			abs := tt.Add(xv.off, idx)
			if !abs.IsConst() && !isScalarT(x.Type().(*types.Pointer).Elem()) {
				// elements are not scalars (structs, slices, interfaces): split on the index
				var alts []alt
				for _, r := range ex.enumerate(st, abs, 64) {
					alts = append(alts, alt{r.st, elemPtr(xv, tt.BV(r.v, 64))})
				}
				return ex.continueMulti(c, x, alts, work)
			}
			ex.set(c, x, elemPtr(xv, abs))
		case Ptr:
			if !ex.nilCheck(c, x, xv) {
				return false
			}
			n := x.X.Type().Underlying().(*types.Pointer).Elem().Underlying().(*types.Array).Len()
			if !ex.oblige(st, tt.Ult(idx, tt.BV(uint64(n), 64)), "bounds", ex.pos(x), c.fn.String(), "array index out of range") {
				return false
			}
			if !idx.IsConst() && !isScalarT(x.Type().(*types.Pointer).Elem()) {
				var alts []alt
				for _, r := range ex.enumerate(st, idx, 64) {
					np := append(append([]PE(nil), xv.path...), PE{idx: tt.BV(r.v, 64)})
					alts = append(alts, alt{r.st, Ptr{xv.obj, np}})
				}
				return ex.continueMulti(c, x, alts, work)
			}
			np := append(append([]PE(nil), xv.path...), PE{idx: idx})
			ex.set(c, x, Ptr{xv.obj, np})
		default:
			unsup("IndexAddr on %T", xv)
		}
	case *ssa.Lookup:
		return ex.lookup(c, x, work)
	case *ssa.Slice:
		v, ok := ex.sliceOp(c, x)
		if !ok {
			return false
		}
		ex.set(c, x, v)
	case *ssa.MakeSlice:
		return ex.makeSlice(c, x, work)
	case *ssa.MakeMap:
		id := st.alloc(x.Type(), &MapData{}, "map")
		ex.set(c, x, MapV{id})
	case *ssa.MakeChan:
		capT := ex.val(c, x.Size).(*Term)
		if !capT.IsConst() {
			unsup("channel with symbolic capacity")
		}
		id := st.alloc(x.Type(), &ChanData{cap: int(capT.c)}, "chan")
		ex.set(c, x, ChanV{id})
	case *ssa.MakeClosure:
		fv := FuncV{fn: x.Fn.(*ssa.Function)}
		for _, b := range x.Bindings {
			fv.env = append(fv.env, ex.val(c, b))
		}
		ex.set(c, x, fv)
	case *ssa.MapUpdate:
		return ex.mapUpdate(c, x, work)
	case *ssa.Store:
		p := ex.val(c, x.Addr).(Ptr)
		if !ex.nilCheck(c, x, p) {
			return false
		}
		ex.store(st, p, ex.val(c, x.Val))
	case *ssa.TypeAssert:
		return ex.typeAssert(c, x, work, outs)
	case *ssa.Range:
		switch xv := ex.val(c, x.X).(type) {
		case SliceV:
			ex.set(c, x, &RangeIter{isStr: true, str: xv, posT: tt.BV(0, 64)})
		case MapV:
			it := &RangeIter{mp: xv.obj}
			if xv.obj != 0 {
				for _, e := range st.obj(xv.obj).val.(*MapData).ents {
					it.keys = append(it.keys, e.k)
				}
			}
			ex.mapRanges++
			ex.set(c, x, it)
		default:
			unsup("range over %T", xv)
		}
	case *ssa.Next:
		return ex.next(c, x, work)
	case *ssa.Jump:
		return ex.enterBlock(c, c.block.Succs[0], false)
	case *ssa.If:
		cond := ex.val(c, x.Cond).(*Term)
		if !cond.IsConst() && ex.tryIfConvert(c, x, cond) {
			return true
		}
		ts, fs := ex.split(st, cond)
		switch {
		case ts != nil && fs != nil:
			cf := c.clone()
			cf.st = fs
			if ex.enterBlock(cf, c.block.Succs[1], true) {
				*work = append(*work, cf)
			}
			c.st = ts
			return ex.enterBlock(c, c.block.Succs[0], true)
		case ts != nil:
			return ex.enterBlock(c, c.block.Succs[0], false)
		case fs != nil:
			return ex.enterBlock(c, c.block.Succs[1], false)
		}
		return false
	case *ssa.Return:
		switch len(x.Results) {
		case 0:
			c.ret = nil
		case 1:
			c.ret = ex.val(c, x.Results[0])
		default:
			t := make(TupleV, len(x.Results))
			for i, r := range x.Results {
				t[i] = ex.val(c, r)
			}
			c.ret = t
		}
		if len(c.defers) > 0 {
			unsup("return with pending defers (missing rundefers)")
		}
		*outs = append(*outs, Outcome{st: c.st, ret: c.ret})
		return false
	case *ssa.RunDefers:
		if len(c.defers) == 0 {
			break
		}
		d := c.defers[len(c.defers)-1]
		c.defers = c.defers[:len(c.defers)-1]
		res := ex.callFunc(st, d.fv, d.args, nil)
		for i, o := range res {
			ci := c
			if i < len(res)-1 {
				ci = c.clone()
			}
			ci.st = o.st
			if o.pan != nil {
				sub := []*ctx{}
				ex.startPanic(ci, o.pan, &sub, outs)
				*work = append(*work, sub...)
				continue
			}
			// stay on the RunDefers instruction until the list is empty
			*work = append(*work, ci)
		}
		return false
	case *ssa.Defer:
		fv, args, ok := ex.prepareCall(c, x, &x.Call)
		if !ok {
			return false
		}
		c.defers = append(c.defers, deferred{fv, args})
	case *ssa.Go:
		fv, args, ok := ex.prepareCall(c, x, &x.Call)
		if !ok {
			return false
		}
		return ex.goStmt(c, x, fv, args, work, outs)
	case *ssa.Panic:
		v := ex.val(c, x.X)
		msg := ex.describe(st, v)
		harness := ex.isHarnessFn(c.fn)
		if !harness {
			ex.obligations++
			ex.recordViolation(st, "panic", ex.pos(x), c.fn.String(), "explicit panic: "+msg)
		}
		ex.startPanic(c, &PanicInfo{val: v, msg: msg}, work, outs)
		return false
	case *ssa.Call:
		fv, args, ok := ex.prepareCall(c, x, &x.Call)
		if !ok {
			return false
		}
		res := ex.callFunc(st, fv, args, &x.Call)
		for i, o := range res {
			ci := c
			if i < len(res)-1 {
				ci = c.clone()
			}
			ci.st = o.st
			if o.pan != nil {
				sub := []*ctx{}
				ex.startPanic(ci, o.pan, &sub, outs)
				*work = append(*work, sub...)
				continue
			}
			ex.set(ci, x, o.ret)
			ci.pc++
			*work = append(*work, ci)
		}
		return false
	case *ssa.Send:
		return ex.chanSend(c, x, work, outs)
	case *ssa.Select:
		return ex.selectStmt(c, x, work, outs)
	default:
		unsup("instruction %T", in)
	}
	c.pc++
	return true
}

// continueMulti continues c after an instruction that produced several
// (state, value) alternatives.
type alt struct {
	st *State
	v  Value
}

func (ex *Exec) continueMulti(c *ctx, v ssa.Value, alts []alt, work *[]*ctx) bool {
	if len(alts) == 0 {
		return false
	}
	if len(alts) == 1 && alts[0].st == c.st {
		ex.set(c, v, alts[0].v)
		c.pc++
		return true
	}
	for i, a := range alts {
		ci := c
		if i < len(alts)-1 {
			ci = c.clone()
		}
		ci.st = a.st
		ex.set(ci, v, a.v)
		ci.pc++
		*work = append(*work, ci)
	}
	return false
}

func (ex *Exec) isHarnessFn(fn *ssa.Function) bool {
	for f := fn; f != nil; f = f.Parent() {
		if strings.HasPrefix(f.Name(), "VH_") || strings.HasPrefix(f.Name(), "verif") || strings.HasPrefix(f.Name(), "Verif") || strings.HasPrefix(f.Name(), "vh") {
			return true
		}
		if f.Parent() == nil {
			p := ex.prog.Fset.Position(f.Pos())
			if strings.Contains(p.Filename, "zz_verif") {
				return true
			}
		}
	}
	return false
}

func (ex *Exec) nilCheck(c *ctx, in ssa.Instruction, p Ptr) bool {
	if p.obj != 0 {
		return true
	}
	ex.obligations++
	ex.recordViolation(c.st, "nil", ex.pos(in), c.fn.String(), "nil pointer dereference")
	return false
}

func (ex *Exec) toInt64(t *Term, typ types.Type) *Term {
	if t.w == 64 {
		return t
	}
	if isSigned(typ) {
		return ex.tt.SExt(t, 64)
	}
	return ex.tt.ZExt(t, 64)
}

// prepareCall resolves the callee and evaluates arguments.
func (ex *Exec) prepareCall(c *ctx, in ssa.Instruction, call *ssa.CallCommon) (FuncV, []Value, bool) {
	var args []Value
	if call.IsInvoke() {
		recv := ex.val(c, call.Value).(IfaceV)
		if recv.typ == nil {
			ex.obligations++
			ex.recordViolation(c.st, "nil", ex.pos(in), c.fn.String(), "method call on nil interface")
			return FuncV{}, nil, false
		}
		fn := ex.prog.LookupMethod(recv.typ, call.Method.Pkg(), call.Method.Name())
		if fn == nil {
			unsup("no method %s on %s", call.Method.Name(), recv.typ)
		}
		args = append(args, recv.val)
		for _, a := range call.Args {
			args = append(args, ex.val(c, a))
		}
		return FuncV{fn: fn}, args, true
	}
	fv := ex.val(c, call.Value).(FuncV)
	if fv.fn == nil && fv.builtin == "" {
		ex.obligations++
		ex.recordViolation(c.st, "nil", ex.pos(in), c.fn.String(), "call of nil function")
		return FuncV{}, nil, false
	}
	for _, a := range call.Args {
		args = append(args, ex.val(c, a))
	}
	return fv, args, true
}

func (ex *Exec) describe(st *State, v Value) string {
	switch x := v.(type) {
	case IfaceV:
		if x.typ == nil {
			return "nil"
		}
		return ex.describe(st, x.val)
	case SliceV:
		if s, ok := ex.concreteStr(st, x); ok && x.str {
			return s
		}
		return "<string>"
	case *Term:
		if x.IsConst() {
			return fmt.Sprint(x.c)
		}
		return "<sym>"
	case Ptr:
		if x.obj != 0 {
			o := st.obj(x.obj)
			if sv, ok := o.val.(*StructV); ok && len(sv.f) == 1 {
				return ex.describe(st, sv.f[0])
			}
		}
		return "<ptr>"
	}
	return fmt.Sprintf("<%T>", v)
}

func (ex *Exec) runInit(pkg *ssa.Package) {
	if ex.initDone[pkg] {
		return
	}
	ex.initDone[pkg] = true
	init := pkg.Func("init")
	if init == nil || init.Blocks == nil {
		return
	}
	st := &State{ex: ex, base: ex.base, heap: map[int]*Object{}, initMode: true}
	saveSteps, saveUnwind := ex.maxSteps, ex.unwind
	ex.maxSteps = 1 << 30
	var outs []Outcome
	func() {
		saveStack := ex.callStack
		defer func() {
			if r := recover(); r != nil {
				if strings.Contains(pkg.Pkg.Path(), "sqlittle") {
					panic(r)
				}
				ex.callStack = saveStack
				ex.initFailed = append(ex.initFailed, fmt.Sprintf("%s: %v", pkg.Pkg.Path(), r))
				outs = nil
			}
		}()
		outs = ex.runFunc(st, init, nil, nil)
	}()
	ex.maxSteps, ex.unwind = saveSteps, saveUnwind
	if len(outs) == 0 {
		return
	}
	if len(outs) != 1 || outs[0].pan != nil {
		fmt.Fprintf(os.Stderr, "warning: init of %s produced %d outcomes\n", pkg.Pkg.Path(), len(outs))
		if len(outs) == 0 {
			return
		}
	}
	// fold init heap into base
	o := outs[0].st
	for id, obj := range o.heap {
		cp := *obj
		cp.owner = nil
		ex.base[id] = &cp
	}
}

var _ = math.Inf

func isScalarT(t types.Type) bool {
	b, ok := t.Underlying().(*types.Basic)
	return ok && b.Info()&types.IsString == 0
}
