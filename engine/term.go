package main

// Hash-consed SMT terms with constant folding. Bit-vectors model Go's wrapping
// machine integers, FP64 models float64, Bool models bool. One TermTable per
// worker (no locking).

import (
	"fmt"
	"math"
	"math/bits"
	"strconv"
	"strings"
)

type Kind uint8

const (
	KBool Kind = iota
	KBV
	KFP  // float64
	KArr // (Array (_ BitVec 32) (_ BitVec 8)), only as variables
	KF32 // float32 (rare)
)

type Op uint8

const (
	OConst Op = iota
	OVar
	OAdd
	OSub
	OMul
	OUDiv
	OURem
	OSDiv
	OSRem
	OAnd
	OOr
	OXor
	ONot
	ONeg
	OShl
	OLShr
	OAShr
	OConcat
	OExtract // c = hi<<8|lo
	OZExt    // to width w
	OSExt
	OIte
	OEq
	OUlt
	OUle
	OSlt
	OSle
	OBAnd
	OBOr
	OBNot
	OFEq
	OFLt
	OFLe
	OFAdd
	OFSub
	OFMul
	OFDiv
	OFNeg
	OFFromSBV
	OFFromUBV
	OFToSBV // c = width
	OFToUBV
	OFFromBits
	OFIsNaN
	OSelect
	OUF   // uninterpreted function, name
	OFCvt // fp to fp conversion (kind gives target)
)

type Term struct {
	id   int
	op   Op
	kind Kind
	w    int // BV width
	a    []*Term
	c    uint64
	name string
	defd bool // emitted to solver (per solver instance; one solver per table)
	fp   bool // contains floating-point sub-terms
	lanes     []*Term
	lanesDone bool
}

func (t *Term) IsConst() bool { return t.op == OConst }

type TermTable struct {
	tab   map[string]*Term
	next  int
	True  *Term
	False *Term
	nvar  int
}

func NewTermTable() *TermTable {
	tt := &TermTable{tab: map[string]*Term{}}
	tt.True = tt.mk(&Term{op: OConst, kind: KBool, c: 1})
	tt.False = tt.mk(&Term{op: OConst, kind: KBool, c: 0})
	return tt
}

func (tt *TermTable) mk(t *Term) *Term {
	var sb strings.Builder
	sb.WriteString(strconv.Itoa(int(t.op)))
	sb.WriteByte('|')
	sb.WriteString(strconv.Itoa(int(t.kind)))
	sb.WriteByte('|')
	sb.WriteString(strconv.Itoa(t.w))
	sb.WriteByte('|')
	sb.WriteString(strconv.FormatUint(t.c, 16))
	sb.WriteByte('|')
	sb.WriteString(t.name)
	for _, a := range t.a {
		sb.WriteByte(',')
		sb.WriteString(strconv.Itoa(a.id))
	}
	k := sb.String()
	if e, ok := tt.tab[k]; ok {
		return e
	}
	t.id = tt.next
	tt.next++
	t.fp = t.kind == KFP || t.kind == KF32
	for _, a := range t.a {
		if a.fp {
			t.fp = true
		}
	}
	tt.tab[k] = t
	return t
}

func mask(w int) uint64 {
	if w >= 64 {
		return ^uint64(0)
	}
	return (uint64(1) << uint(w)) - 1
}

func sext(v uint64, w int) int64 {
	if w >= 64 {
		return int64(v)
	}
	s := uint(64 - w)
	return int64(v<<s) >> s
}

func (tt *TermTable) BV(v uint64, w int) *Term {
	return tt.mk(&Term{op: OConst, kind: KBV, w: w, c: v & mask(w)})
}
func (tt *TermTable) Bool(b bool) *Term {
	if b {
		return tt.True
	}
	return tt.False
}
func (tt *TermTable) FP(f float64) *Term {
	return tt.mk(&Term{op: OConst, kind: KFP, c: math.Float64bits(f)})
}
func (tt *TermTable) F32(f float32) *Term {
	return tt.mk(&Term{op: OConst, kind: KF32, c: uint64(math.Float32bits(f))})
}

func (tt *TermTable) Var(name string, k Kind, w int) *Term {
	return tt.mk(&Term{op: OVar, kind: k, w: w, name: name})
}
func (tt *TermTable) Fresh(prefix string, k Kind, w int) *Term {
	tt.nvar++
	return tt.Var(fmt.Sprintf("%s!%d", prefix, tt.nvar), k, w)
}

func (tt *TermTable) bin(op Op, a, b *Term) *Term {
	return tt.mk(&Term{op: op, kind: KBV, w: a.w, a: []*Term{a, b}})
}

func (tt *TermTable) Add(a, b *Term) *Term {
	if a.IsConst() && b.IsConst() {
		return tt.BV(a.c+b.c, a.w)
	}
	if a.IsConst() {
		a, b = b, a
	}
	if b.IsConst() {
		if b.c == 0 {
			return a
		}
		// (x + c1) + c2
		if a.op == OAdd && a.a[1].IsConst() {
			return tt.Add(a.a[0], tt.BV(a.a[1].c+b.c, a.w))
		}
	}
	return tt.bin(OAdd, a, b)
}
func (tt *TermTable) Sub(a, b *Term) *Term {
	if a.IsConst() && b.IsConst() {
		return tt.BV(a.c-b.c, a.w)
	}
	if b.IsConst() {
		return tt.Add(a, tt.BV(-b.c, a.w))
	}
	if a == b {
		return tt.BV(0, a.w)
	}
	// (x + c) - x  => c ; (x+c1)-(x+c2) => c1-c2
	ab, ac := splitAddConst(a)
	bb, bc := splitAddConst(b)
	if ab == bb {
		return tt.BV(ac-bc, a.w)
	}
	return tt.bin(OSub, a, b)
}
func splitAddConst(t *Term) (*Term, uint64) {
	if t.op == OAdd && t.a[1].IsConst() {
		return t.a[0], t.a[1].c
	}
	return t, 0
}
func (tt *TermTable) Mul(a, b *Term) *Term {
	if a.IsConst() && b.IsConst() {
		return tt.BV(a.c*b.c, a.w)
	}
	if a.IsConst() {
		a, b = b, a
	}
	if b.IsConst() {
		if b.c == 0 {
			return b
		}
		if b.c == 1 {
			return a
		}
	}
	return tt.bin(OMul, a, b)
}
func (tt *TermTable) UDiv(a, b *Term) *Term {
	if a.IsConst() && b.IsConst() && b.c != 0 {
		return tt.BV(a.c/b.c, a.w)
	}
	return tt.bin(OUDiv, a, b)
}
func (tt *TermTable) URem(a, b *Term) *Term {
	if a.IsConst() && b.IsConst() && b.c != 0 {
		return tt.BV(a.c%b.c, a.w)
	}
	return tt.bin(OURem, a, b)
}
func (tt *TermTable) SDiv(a, b *Term) *Term {
	if a.IsConst() && b.IsConst() && b.c != 0 {
		x, y := sext(a.c, a.w), sext(b.c, a.w)
		if y == -1 {
			return tt.BV(uint64(-x), a.w)
		}
		return tt.BV(uint64(x/y), a.w)
	}
	return tt.bin(OSDiv, a, b)
}
func (tt *TermTable) SRem(a, b *Term) *Term {
	if a.IsConst() && b.IsConst() && b.c != 0 {
		x, y := sext(a.c, a.w), sext(b.c, a.w)
		if y == -1 {
			return tt.BV(0, a.w)
		}
		return tt.BV(uint64(x%y), a.w)
	}
	return tt.bin(OSRem, a, b)
}
func (tt *TermTable) And(a, b *Term) *Term {
	if a.IsConst() && b.IsConst() {
		return tt.BV(a.c&b.c, a.w)
	}
	if a.IsConst() {
		a, b = b, a
	}
	if b.IsConst() {
		if b.c == 0 {
			return b
		}
		if b.c == mask(a.w) {
			return a
		}
		// zext(x,w) & c where c covers all of x's bits
		if a.op == OZExt && (mask(a.a[0].w)&^b.c) == 0 {
			return a
		}
	}
	if a == b {
		return a
	}
	return tt.bin(OAnd, a, b)
}
func (tt *TermTable) Or(a, b *Term) *Term {
	if a.IsConst() && b.IsConst() {
		return tt.BV(a.c|b.c, a.w)
	}
	if a.IsConst() {
		a, b = b, a
	}
	if b.IsConst() {
		if b.c == 0 {
			return a
		}
		if b.c == mask(a.w) {
			return b
		}
	}
	if a == b {
		return a
	}
	r := tt.bin(OOr, a, b)
	if (a.op == OShl || a.op == OZExt || a.op == OOr || a.op == OConcat) && (b.op == OShl || b.op == OZExt || b.op == OOr || b.op == OConcat || b.IsConst()) {
		return tt.normLanes(r)
	}
	return r
}
func (tt *TermTable) Xor(a, b *Term) *Term {
	if a.IsConst() && b.IsConst() {
		return tt.BV(a.c^b.c, a.w)
	}
	if a.IsConst() {
		a, b = b, a
	}
	if b.IsConst() && b.c == 0 {
		return a
	}
	if a == b {
		return tt.BV(0, a.w)
	}
	return tt.bin(OXor, a, b)
}
func (tt *TermTable) Not(a *Term) *Term {
	if a.IsConst() {
		return tt.BV(^a.c, a.w)
	}
	return tt.mk(&Term{op: ONot, kind: KBV, w: a.w, a: []*Term{a}})
}
func (tt *TermTable) Neg(a *Term) *Term {
	if a.IsConst() {
		return tt.BV(-a.c, a.w)
	}
	return tt.mk(&Term{op: ONeg, kind: KBV, w: a.w, a: []*Term{a}})
}

// shifts: b has same width as a (caller normalises)
func (tt *TermTable) Shl(a, b *Term) *Term {
	if b.IsConst() {
		if b.c == 0 {
			return a
		}
		if b.c >= uint64(a.w) {
			return tt.BV(0, a.w)
		}
		if a.IsConst() {
			return tt.BV(a.c<<b.c, a.w)
		}
	}
	return tt.bin(OShl, a, b)
}
func (tt *TermTable) LShr(a, b *Term) *Term {
	if b.IsConst() {
		if b.c == 0 {
			return a
		}
		if b.c >= uint64(a.w) {
			return tt.BV(0, a.w)
		}
		if a.IsConst() {
			return tt.BV(a.c>>b.c, a.w)
		}
	}
	return tt.bin(OLShr, a, b)
}
func (tt *TermTable) AShr(a, b *Term) *Term {
	if b.IsConst() {
		if b.c == 0 {
			return a
		}
		if a.IsConst() {
			s := b.c
			if s >= uint64(a.w) {
				s = uint64(a.w) - 1
			}
			return tt.BV(uint64(sext(a.c, a.w)>>s), a.w)
		}
	}
	return tt.bin(OAShr, a, b)
}

func (tt *TermTable) Extract(a *Term, hi, lo int) *Term {
	w := hi - lo + 1
	if lo == 0 && w == a.w {
		return a
	}
	if a.IsConst() {
		return tt.BV(a.c>>uint(lo), w)
	}
	if a.op == OLShr && a.a[1].IsConst() && hi+int(a.a[1].c) < a.w {
		sh := int(a.a[1].c)
		return tt.Extract(a.a[0], hi+sh, lo+sh)
	}
	if a.op == OShl && a.a[1].IsConst() && lo >= int(a.a[1].c) {
		sh := int(a.a[1].c)
		return tt.Extract(a.a[0], hi-sh, lo-sh)
	}
	if a.op == OExtract {
		l0 := int(a.c & 0xff)
		return tt.Extract(a.a[0], hi+l0, lo+l0)
	}
	if a.op == OConcat {
		lw := a.a[1].w
		if hi < lw {
			return tt.Extract(a.a[1], hi, lo)
		}
		if lo >= lw {
			return tt.Extract(a.a[0], hi-lw, lo-lw)
		}
	}
	if (a.op == OZExt || a.op == OSExt) && lo == 0 {
		in := a.a[0]
		if w == in.w {
			return in
		}
		if w < in.w {
			return tt.Extract(in, hi, 0)
		}
		if a.op == OZExt {
			return tt.ZExt(in, w)
		}
		return tt.SExt(in, w)
	}
	return tt.mk(&Term{op: OExtract, kind: KBV, w: w, a: []*Term{a}, c: uint64(hi)<<8 | uint64(lo)})
}
func (tt *TermTable) ZExt(a *Term, w int) *Term {
	if w == a.w {
		return a
	}
	if w < a.w {
		return tt.Extract(a, w-1, 0)
	}
	if a.IsConst() {
		return tt.BV(a.c, w)
	}
	if a.op == OZExt {
		return tt.ZExt(a.a[0], w)
	}
	return tt.mk(&Term{op: OZExt, kind: KBV, w: w, a: []*Term{a}})
}
func (tt *TermTable) SExt(a *Term, w int) *Term {
	if w == a.w {
		return a
	}
	if w < a.w {
		return tt.Extract(a, w-1, 0)
	}
	if a.IsConst() {
		return tt.BV(uint64(sext(a.c, a.w)), w)
	}
	if a.op == OZExt {
		// zero-extended value is non-negative
		return tt.ZExt(a.a[0], w)
	}
	return tt.mk(&Term{op: OSExt, kind: KBV, w: w, a: []*Term{a}})
}

func (tt *TermTable) Ite(c, a, b *Term) *Term {
	if c.IsConst() {
		if c.c != 0 {
			return a
		}
		return b
	}
	if a == b {
		return a
	}
	if a.kind == KBool {
		if a.IsConst() && b.IsConst() {
			if a.c != 0 {
				return c
			}
			return tt.BNot(c)
		}
		if a.IsConst() {
			if a.c != 0 {
				return tt.BOr(c, b)
			}
			return tt.BAnd(tt.BNot(c), b)
		}
		if b.IsConst() {
			if b.c != 0 {
				return tt.BOr(tt.BNot(c), a)
			}
			return tt.BAnd(c, a)
		}
	}
	if c.op == OBNot {
		return tt.Ite(c.a[0], b, a)
	}
	return tt.mk(&Term{op: OIte, kind: a.kind, w: a.w, a: []*Term{c, a, b}})
}

func (tt *TermTable) Eq(a, b *Term) *Term {
	if a == b {
		if a.kind == KFP || a.kind == KF32 {
			// handled by FEq; structural Eq on FP means bit identity: true
		}
		return tt.True
	}
	if a.IsConst() && b.IsConst() {
		return tt.Bool(a.c == b.c)
	}
	if a.kind == KBool {
		if a.IsConst() {
			a, b = b, a
		}
		if b.IsConst() {
			if b.c != 0 {
				return a
			}
			return tt.BNot(a)
		}
	}
	if a.IsConst() {
		a, b = b, a
	}
	if b.IsConst() && a.kind == KBV {
		// zext(x) == c
		if a.op == OZExt {
			in := a.a[0]
			if b.c&^mask(in.w) != 0 {
				return tt.False
			}
			return tt.Eq(in, tt.BV(b.c, in.w))
		}
		// ite(c, k1, k2) == k
		if a.op == OIte && a.a[1].IsConst() && a.a[2].IsConst() {
			return tt.Ite(a.a[0], tt.Bool(a.a[1].c == b.c), tt.Bool(a.a[2].c == b.c))
		}
		if a.op == OIte && (a.a[1].IsConst() || a.a[2].IsConst()) {
			return tt.Ite(a.a[0], tt.Eq(a.a[1], b), tt.Eq(a.a[2], b))
		}
		// (x + c1) == c2
		if a.op == OAdd && a.a[1].IsConst() {
			return tt.Eq(a.a[0], tt.BV(b.c-a.a[1].c, a.w))
		}
	}
	if a.id > b.id {
		a, b = b, a
	}
	return tt.mk(&Term{op: OEq, kind: KBool, a: []*Term{a, b}})
}

func (tt *TermTable) cmp(op Op, a, b *Term) *Term {
	if a.IsConst() && b.IsConst() {
		switch op {
		case OUlt:
			return tt.Bool(a.c < b.c)
		case OUle:
			return tt.Bool(a.c <= b.c)
		case OSlt:
			return tt.Bool(sext(a.c, a.w) < sext(b.c, b.w))
		case OSle:
			return tt.Bool(sext(a.c, a.w) <= sext(b.c, b.w))
		}
	}
	if a == b {
		return tt.Bool(op == OUle || op == OSle)
	}
	// both zero-extended from same width: compare narrow unsigned
	if a.op == OZExt && b.op == OZExt && a.a[0].w == b.a[0].w && a.a[0].w < a.w {
		switch op {
		case OSlt, OUlt:
			return tt.cmp(OUlt, a.a[0], b.a[0])
		case OSle, OUle:
			return tt.cmp(OUle, a.a[0], b.a[0])
		}
	}
	// zext(x) vs const
	if a.op == OZExt && b.IsConst() && a.a[0].w < a.w {
		in := a.a[0]
		sb := sext(b.c, b.w)
		signed := op == OSlt || op == OSle
		if signed && sb < 0 {
			return tt.False
		}
		if b.c > mask(in.w) {
			return tt.True
		}
		nb := tt.BV(b.c, in.w)
		if op == OSlt || op == OUlt {
			return tt.cmp(OUlt, in, nb)
		}
		return tt.cmp(OUle, in, nb)
	}
	if b.op == OZExt && a.IsConst() && b.a[0].w < b.w {
		in := b.a[0]
		sa := sext(a.c, a.w)
		signed := op == OSlt || op == OSle
		if signed && sa < 0 {
			return tt.True
		}
		if a.c > mask(in.w) {
			return tt.False
		}
		na := tt.BV(a.c, in.w)
		if op == OSlt || op == OUlt {
			return tt.cmp(OUlt, na, in)
		}
		return tt.cmp(OUle, na, in)
	}
	if a.op == OIte && a.a[1].IsConst() && a.a[2].IsConst() && b.IsConst() {
		return tt.Ite(a.a[0], tt.cmp(op, a.a[1], b), tt.cmp(op, a.a[2], b))
	}
	if b.op == OIte && b.a[1].IsConst() && b.a[2].IsConst() && a.IsConst() {
		return tt.Ite(b.a[0], tt.cmp(op, a, b.a[1]), tt.cmp(op, a, b.a[2]))
	}
	if op == OUlt && b.IsConst() && b.c == 0 {
		return tt.False
	}
	if op == OUle && a.IsConst() && a.c == 0 {
		return tt.True
	}
	return tt.mk(&Term{op: op, kind: KBool, a: []*Term{a, b}})
}
func (tt *TermTable) Ult(a, b *Term) *Term { return tt.cmp(OUlt, a, b) }
func (tt *TermTable) Ule(a, b *Term) *Term { return tt.cmp(OUle, a, b) }
func (tt *TermTable) Slt(a, b *Term) *Term { return tt.cmp(OSlt, a, b) }
func (tt *TermTable) Sle(a, b *Term) *Term { return tt.cmp(OSle, a, b) }

func (tt *TermTable) BNot(a *Term) *Term {
	if a.IsConst() {
		return tt.Bool(a.c == 0)
	}
	if a.op == OBNot {
		return a.a[0]
	}
	return tt.mk(&Term{op: OBNot, kind: KBool, a: []*Term{a}})
}
func (tt *TermTable) BAnd(a, b *Term) *Term {
	if a.IsConst() {
		if a.c != 0 {
			return b
		}
		return a
	}
	if b.IsConst() {
		if b.c != 0 {
			return a
		}
		return b
	}
	if a == b {
		return a
	}
	if a == tt.BNot(b) {
		return tt.False
	}
	return tt.mk(&Term{op: OBAnd, kind: KBool, a: []*Term{a, b}})
}
func (tt *TermTable) BOr(a, b *Term) *Term {
	if a.IsConst() {
		if a.c != 0 {
			return a
		}
		return b
	}
	if b.IsConst() {
		if b.c != 0 {
			return b
		}
		return a
	}
	if a == b {
		return a
	}
	if a == tt.BNot(b) {
		return tt.True
	}
	return tt.mk(&Term{op: OBOr, kind: KBool, a: []*Term{a, b}})
}
func (tt *TermTable) Implies(a, b *Term) *Term { return tt.BOr(tt.BNot(a), b) }

// ---- floating point ----

func fconst(t *Term) float64 {
	if t.kind == KF32 {
		return float64(math.Float32frombits(uint32(t.c)))
	}
	return math.Float64frombits(t.c)
}
func (tt *TermTable) fmk(k Kind, f float64) *Term {
	if k == KF32 {
		return tt.F32(float32(f))
	}
	return tt.FP(f)
}

func (tt *TermTable) FCmp(op Op, a, b *Term) *Term {
	if a.IsConst() && b.IsConst() {
		x, y := fconst(a), fconst(b)
		switch op {
		case OFEq:
			return tt.Bool(x == y)
		case OFLt:
			return tt.Bool(x < y)
		case OFLe:
			return tt.Bool(x <= y)
		}
	}
	return tt.mk(&Term{op: op, kind: KBool, a: []*Term{a, b}})
}
func (tt *TermTable) FBin(op Op, a, b *Term) *Term {
	if a.IsConst() && b.IsConst() {
		x, y := fconst(a), fconst(b)
		var r float64
		switch op {
		case OFAdd:
			r = x + y
		case OFSub:
			r = x - y
		case OFMul:
			r = x * y
		case OFDiv:
			r = x / y
		}
		if !math.IsNaN(r) {
			return tt.fmk(a.kind, r)
		}
	}
	return tt.mk(&Term{op: op, kind: a.kind, a: []*Term{a, b}})
}
func (tt *TermTable) FNeg(a *Term) *Term {
	if a.IsConst() {
		return tt.fmk(a.kind, -fconst(a))
	}
	return tt.mk(&Term{op: OFNeg, kind: a.kind, a: []*Term{a}})
}
func (tt *TermTable) FIsNaN(a *Term) *Term {
	if a.IsConst() {
		return tt.Bool(math.IsNaN(fconst(a)))
	}
	return tt.mk(&Term{op: OFIsNaN, kind: KBool, a: []*Term{a}})
}

// int -> float (round to nearest even)
func (tt *TermTable) FFromInt(a *Term, signed bool, k Kind) *Term {
	if a.IsConst() {
		if signed {
			return tt.fmk(k, float64(sext(a.c, a.w)))
		}
		return tt.fmk(k, float64(a.c))
	}
	op := OFFromUBV
	if signed {
		op = OFFromSBV
	}
	return tt.mk(&Term{op: op, kind: k, a: []*Term{a}})
}

// float -> int, round toward zero. Out-of-range is unspecified in SMT-LIB just
// as it is implementation-defined in Go.
func (tt *TermTable) FToInt(a *Term, signed bool, w int) *Term {
	if a.IsConst() {
		f := fconst(a)
		if signed && w == 64 && f > -9.2e18 && f < 9.2e18 {
			return tt.BV(uint64(int64(f)), w)
		}
	}
	op := OFToUBV
	if signed {
		op = OFToSBV
	}
	return tt.mk(&Term{op: op, kind: KBV, w: w, a: []*Term{a}, c: uint64(w)})
}
func (tt *TermTable) FFromBits(a *Term) *Term {
	if a.IsConst() {
		f := math.Float64frombits(a.c)
		if !math.IsNaN(f) {
			return tt.FP(f)
		}
	}
	return tt.mk(&Term{op: OFFromBits, kind: KFP, a: []*Term{a}})
}
func (tt *TermTable) FCvt(a *Term, k Kind) *Term {
	if a.kind == k {
		return a
	}
	if a.IsConst() {
		return tt.fmk(k, fconst(a))
	}
	return tt.mk(&Term{op: OFCvt, kind: k, a: []*Term{a}})
}

func (tt *TermTable) Select(arr, idx *Term) *Term {
	return tt.mk(&Term{op: OSelect, kind: KBV, w: 8, a: []*Term{arr, idx}})
}
func (tt *TermTable) UF(name string, k Kind, w int, args ...*Term) *Term {
	return tt.mk(&Term{op: OUF, kind: k, w: w, a: args, name: name})
}

// ---- printing ----

func sortStr(k Kind, w int) string {
	switch k {
	case KBool:
		return "Bool"
	case KBV:
		return fmt.Sprintf("(_ BitVec %d)", w)
	case KFP:
		return "(_ FloatingPoint 11 53)"
	case KF32:
		return "(_ FloatingPoint 8 24)"
	case KArr:
		return "(Array (_ BitVec 32) (_ BitVec 8))"
	}
	return "?"
}

func smtName(s string) string { return "|" + s + "|" }

func (t *Term) ref() string {
	switch t.op {
	case OConst:
		switch t.kind {
		case KBool:
			if t.c != 0 {
				return "true"
			}
			return "false"
		case KBV:
			return fmt.Sprintf("(_ bv%d %d)", t.c, t.w)
		case KFP:
			return fmt.Sprintf("((_ to_fp 11 53) (_ bv%d 64))", t.c)
		case KF32:
			return fmt.Sprintf("((_ to_fp 8 24) (_ bv%d 32))", t.c)
		}
	case OVar:
		return smtName(t.name)
	}
	return fmt.Sprintf("t%d", t.id)
}

var opNames = map[Op]string{
	OAdd: "bvadd", OSub: "bvsub", OMul: "bvmul", OUDiv: "bvudiv", OURem: "bvurem", OSDiv: "bvsdiv", OSRem: "bvsrem",
	OAnd: "bvand", OOr: "bvor", OXor: "bvxor", ONot: "bvnot", ONeg: "bvneg", OShl: "bvshl", OLShr: "bvlshr", OAShr: "bvashr",
	OConcat: "concat", OIte: "ite", OEq: "=", OUlt: "bvult", OUle: "bvule", OSlt: "bvslt", OSle: "bvsle",
	OBAnd: "and", OBOr: "or", OBNot: "not", OFEq: "fp.eq", OFLt: "fp.lt", OFLe: "fp.leq",
	OFNeg: "fp.neg", OFIsNaN: "fp.isNaN", OSelect: "select",
}

// body prints the defining expression of a non-leaf term, referring to
// children by name.
func (t *Term) body() string {
	args := make([]string, len(t.a))
	for i, a := range t.a {
		args[i] = a.ref()
	}
	j := strings.Join(args, " ")
	fpsort := func(k Kind) string {
		if k == KF32 {
			return "8 24"
		}
		return "11 53"
	}
	switch t.op {
	case OExtract:
		return fmt.Sprintf("((_ extract %d %d) %s)", t.c>>8, t.c&0xff, j)
	case OZExt:
		return fmt.Sprintf("((_ zero_extend %d) %s)", t.w-t.a[0].w, j)
	case OSExt:
		return fmt.Sprintf("((_ sign_extend %d) %s)", t.w-t.a[0].w, j)
	case OFAdd:
		return "(fp.add RNE " + j + ")"
	case OFSub:
		return "(fp.sub RNE " + j + ")"
	case OFMul:
		return "(fp.mul RNE " + j + ")"
	case OFDiv:
		return "(fp.div RNE " + j + ")"
	case OFFromSBV:
		return fmt.Sprintf("((_ to_fp %s) RNE %s)", fpsort(t.kind), j)
	case OFFromUBV:
		return fmt.Sprintf("((_ to_fp_unsigned %s) RNE %s)", fpsort(t.kind), j)
	case OFToSBV:
		return fmt.Sprintf("((_ fp.to_sbv %d) RTZ %s)", t.w, j)
	case OFToUBV:
		return fmt.Sprintf("((_ fp.to_ubv %d) RTZ %s)", t.w, j)
	case OFFromBits:
		return fmt.Sprintf("((_ to_fp 11 53) %s)", j)
	case OFCvt:
		return fmt.Sprintf("((_ to_fp %s) RNE %s)", fpsort(t.kind), j)
	case OUF:
		return "(" + smtName(t.name) + " " + j + ")"
	}
	return "(" + opNames[t.op] + " " + j + ")"
}

// evalConst evaluates a term under an assignment of variables (used to
// double-check models and to compute replay vectors for derived values).
func popcount(x uint64) int { return bits.OnesCount64(x) }

// ---- byte-lane normalisation ----
// Values are routinely taken apart into bytes (shifts + truncation) and put
// together again (zero-extension, shifts, or). lanesOf describes a term as a
// little-endian vector of 8-bit terms where that is syntactically evident, and
// fromLanes rebuilds the cheapest equivalent term — in particular the original
// 64-bit variable when all its bytes come back in order.

func (tt *TermTable) lanesOf(t *Term) []*Term {
	if t.kind != KBV || t.w%8 != 0 {
		return nil
	}
	if t.lanesDone {
		return t.lanes
	}
	t.lanesDone = true
	n := t.w / 8
	var res []*Term
	switch t.op {
	case OConst:
		res = make([]*Term, n)
		for i := range res {
			res[i] = tt.BV(t.c>>(8*uint(i)), 8)
		}
	case OZExt:
		in := tt.lanesOf(t.a[0])
		if in == nil {
			break
		}
		res = append(append([]*Term(nil), in...), make([]*Term, n-len(in))...)
		for i := len(in); i < n; i++ {
			res[i] = tt.BV(0, 8)
		}
	case OShl:
		if !t.a[1].IsConst() || t.a[1].c%8 != 0 {
			break
		}
		in := tt.lanesOf(t.a[0])
		if in == nil {
			break
		}
		sh := int(t.a[1].c / 8)
		res = make([]*Term, n)
		for i := range res {
			if i < sh {
				res[i] = tt.BV(0, 8)
			} else {
				res[i] = in[i-sh]
			}
		}
	case OLShr:
		if !t.a[1].IsConst() || t.a[1].c%8 != 0 {
			break
		}
		in := tt.lanesOf(t.a[0])
		if in == nil {
			break
		}
		sh := int(t.a[1].c / 8)
		res = make([]*Term, n)
		for i := range res {
			if i+sh < n {
				res[i] = in[i+sh]
			} else {
				res[i] = tt.BV(0, 8)
			}
		}
	case OOr:
		la, lb := tt.lanesOf(t.a[0]), tt.lanesOf(t.a[1])
		if la == nil || lb == nil {
			break
		}
		res = make([]*Term, n)
		for i := range res {
			switch {
			case la[i].IsConst() && la[i].c == 0:
				res[i] = lb[i]
			case lb[i].IsConst() && lb[i].c == 0:
				res[i] = la[i]
			case la[i].IsConst() && lb[i].IsConst():
				res[i] = tt.BV(la[i].c|lb[i].c, 8)
			default:
				res = nil
			}
			if res == nil {
				break
			}
		}
	case OConcat:
		hi, lo := tt.lanesOf(t.a[0]), tt.lanesOf(t.a[1])
		if hi != nil && lo != nil {
			res = append(append([]*Term(nil), lo...), hi...)
		}
	case OExtract:
		hiB, loB := int(t.c>>8), int(t.c&0xff)
		if loB%8 == 0 && (hiB+1)%8 == 0 {
			if in := tt.lanesOf(t.a[0]); in != nil {
				res = append([]*Term(nil), in[loB/8:(hiB+1)/8]...)
			}
		}
	}
	if res == nil {
		if n == 1 {
			res = []*Term{t}
		} else if t.op == OVar || t.op == OIte || t.op == OAdd || t.op == OSub {
			// opaque wide term: its own byte slices
			res = make([]*Term, n)
			for i := range res {
				res[i] = tt.mk(&Term{op: OExtract, kind: KBV, w: 8, a: []*Term{t}, c: uint64(8*i+7)<<8 | uint64(8*i)})
			}
		}
	}
	t.lanes = res
	return res
}

// fromLanes builds a term of width 8*len(l) from little-endian byte terms.
func (tt *TermTable) fromLanes(l []*Term) *Term {
	n := len(l)
	// piece: run of lanes that are consecutive byte slices of one source
	type piece struct {
		t *Term
	}
	var pieces []*Term // little-endian pieces
	i := 0
	for i < n {
		b := l[i]
		if b.IsConst() {
			j := i
			var v uint64
			for j < n && l[j].IsConst() && j-i < 8 {
				v |= l[j].c << (8 * uint(j-i))
				j++
			}
			pieces = append(pieces, tt.BV(v, 8*(j-i)))
			i = j
			continue
		}
		if b.op == OExtract && b.w == 8 && (b.c&0xff)%8 == 0 {
			src := b.a[0]
			lo := int(b.c & 0xff)
			j := i + 1
			for j < n && l[j].op == OExtract && l[j].a[0] == src && int(l[j].c&0xff) == lo+8*(j-i) && l[j].w == 8 {
				j++
			}
			hi := lo + 8*(j-i) - 1
			if lo == 0 && hi == src.w-1 {
				pieces = append(pieces, src)
			} else {
				pieces = append(pieces, tt.mk(&Term{op: OExtract, kind: KBV, w: hi - lo + 1, a: []*Term{src}, c: uint64(hi)<<8 | uint64(lo)}))
			}
			i = j
			continue
		}
		pieces = append(pieces, b)
		i++
	}
	// zero high part -> zero extension
	res := pieces[0]
	for k := 1; k < len(pieces); k++ {
		p := pieces[k]
		if p.IsConst() && p.c == 0 && k == len(pieces)-1 {
			res = tt.mk(&Term{op: OZExt, kind: KBV, w: res.w + p.w, a: []*Term{res}})
			continue
		}
		if p.IsConst() && res.IsConst() && p.w+res.w <= 64 {
			res = tt.BV(p.c<<uint(res.w)|res.c, p.w+res.w)
			continue
		}
		res = tt.mk(&Term{op: OConcat, kind: KBV, w: res.w + p.w, a: []*Term{p, res}})
	}
	return res
}

// normLanes returns an equivalent, usually much smaller, term when t is a
// byte-shuffle; t itself otherwise.
func (tt *TermTable) normLanes(t *Term) *Term {
	if t.w <= 8 {
		return t
	}
	l := tt.lanesOf(t)
	if l == nil {
		return t
	}
	r := tt.fromLanes(l)
	if r.w != t.w {
		return t
	}
	return r
}
