package main

import (
	"runtime/pprof"
	"time"
	"encoding/json"
	"flag"
	"fmt"
	"os"
	"path/filepath"
	"sort"
	"strings"
)

func usage() {
	fmt.Fprintln(os.Stderr, `usage: vcheck <command> [flags]
  run <property> [--tier quick|thorough]   decide one property, write evidence/<id>.json
  harness <name>...                        run single harnesses, print results (debugging)
  replay <file>                            replay a stored counterexample natively
  list                                     list harnesses
  selftest                                 native-vs-symbolic differential on witness vectors`)
	os.Exit(2)
}

func envOr(k, d string) string {
	if v := os.Getenv(k); v != "" {
		return v
	}
	return d
}

func main() {
	if len(os.Args) < 2 {
		usage()
	}
	cmd := os.Args[1]
	if pf := os.Getenv("VERIF_PPROF"); pf != "" {
		f, _ := os.Create(pf)
		pprof.StartCPUProfile(f)
		go func() {
			time.Sleep(30 * time.Second)
			pprof.StopCPUProfile()
			f.Close()
		}()
	}
	fs := flag.NewFlagSet(cmd, flag.ExitOnError)
	tier := fs.String("tier", envOr("VERIF_TIER", "quick"), "quick|thorough")
	repo := fs.String("repo", envOr("VERIF_REPO", "/repo"), "repository root")
	verif := fs.String("verif", envOr("VERIF_DIR", "/verif"), "verif root")
	solver := fs.String("solver", envOr("VERIF_SOLVER", defaultSolver()), "solver binary")
	workers := fs.Int("j", 14, "parallel harnesses")
	verbose := fs.Bool("v", false, "verbose")
	noReplay := fs.Bool("no-replay", false, "skip native replay (debugging only)")
	var pos []string
	args := os.Args[2:]
	// allow flags after positionals
	for len(args) > 0 {
		if strings.HasPrefix(args[0], "-") {
			fs.Parse(args)
			args = fs.Args()
			continue
		}
		pos = append(pos, args[0])
		args = args[1:]
	}
	t := 0
	if *tier == "thorough" {
		t = 1
	}
	opts := RunOpts{Tier: t, SolverBin: *solver, Witnesses: 2, Verbose: *verbose}
	switch cmd {
	case "list":
		P, err := loadProgram(*repo, *verif)
		if err != nil {
			fmt.Fprintln(os.Stderr, err)
			os.Exit(2)
		}
		var names []string
		for n := range P.harness {
			names = append(names, n)
		}
		sort.Strings(names)
		for _, n := range names {
			h := P.harness[n]
			fmt.Printf("%-6s %-8s %-10s %s\n", h.Prop, h.Pkg, h.Tier, n)
		}
	case "harness":
		P, err := loadProgram(*repo, *verif)
		if err != nil {
			fmt.Fprintln(os.Stderr, err)
			os.Exit(2)
		}
		var hs []*HarnessSpec
		for _, n := range pos {
			matched := false
			for name, h := range P.harness {
				if ok, _ := filepath.Match(n, name); ok {
					hs = append(hs, h)
					matched = true
				}
			}
			if !matched {
				fmt.Fprintln(os.Stderr, "no such harness:", n)
				os.Exit(2)
			}
		}
		sort.Slice(hs, func(i, j int) bool { return hs[i].Name < hs[j].Name })
		opts.FrameCheck = true
		res := runMany(P, hs, opts, *workers)
		for _, r := range res {
			b, _ := json.MarshalIndent(r, "", " ")
			fmt.Println(string(b))
		}
	case "run":
		if len(pos) != 1 {
			usage()
		}
		os.Exit(runProperty(pos[0], *tier, *repo, *verif, opts, *workers, *noReplay))
	case "replay":
		if len(pos) != 1 {
			usage()
		}
		os.Exit(replayFile(pos[0], *repo, *verif))
	default:
		usage()
	}
}

func defaultSolver() string {
	for _, p := range []string{"/usr/local/bin/z3-new", "/opt/veriftools/pyvenv/bin/z3"} {
		if _, err := os.Stat(p); err == nil {
			return p
		}
	}
	return "z3"
}
