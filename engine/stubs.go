package main

// Environment stubs (file system for the journal probe) and the C20 frame
// check. The stubs are contracts, not implementations: every one is listed in
// the evidence under assumptions when used.

import (
	"fmt"
	"go/types"
	"strings"

	"golang.org/x/tools/go/ssa"
)

// ghost file: set by the harness with verifSetFile(name, content, length, mode)
// mode: 0 = exists, 1 = does not exist, 2 = open fails with another error
type ghostFile struct {
	content SliceV
	length  *Term
	mode    int
}

func (ex *Exec) fileOf(st *State, name string) (ghostFile, bool) {
	if st.files == nil {
		return ghostFile{}, false
	}
	f, ok := st.files[name]
	return f, ok
}

func (ex *Exec) registerStubs() {
	tt := ex.tt
	I := ex.intr
	defer ex.registerLockStubs()
	I["verif:verifsetfile"] = func(ex *Exec, st *State, _ *ssa.CallCommon, a []Value) []Outcome {
		name := ex.argStr(st, a[0])
		nf := map[string]ghostFile{}
		for k, v := range st.files {
			nf[k] = v
		}
		nf[name] = ghostFile{content: a[1].(SliceV), length: a[2].(*Term), mode: ex.argInt(a[3])}
		st.files = nf
		return ret1(st, nil)
	}
	// verifPadFile(name, length): the ghost file's length becomes `length`
	// (bytes beyond the given content are zeros nobody reads)
	pad := func(ex *Exec, st *State, _ *ssa.CallCommon, a []Value) []Outcome {
		name := ex.argStr(st, a[0])
		f, ok := ex.fileOf(st, name)
		if !ok || f.mode != 0 {
			return ret1(st, nil)
		}
		nf := map[string]ghostFile{}
		for k, v := range st.files {
			nf[k] = v
		}
		f.length = a[1].(*Term)
		nf[name] = f
		st.files = nf
		return ret1(st, nil)
	}
	I["verif:verifpadfile"] = pad
	I["verif:vhpadfile"] = pad
	// verifProtect(x): every object reachable from x becomes write-protected
	// (a store to one is a violation) until verifUnprotect().
	I["verif:verifprotect"] = func(ex *Exec, st *State, _ *ssa.CallCommon, a []Value) []Outcome {
		set := map[int]bool{}
		var walk func(v Value)
		walk = func(v Value) {
			switch x := v.(type) {
			case Ptr:
				if x.obj > 0 && !set[x.obj] {
					set[x.obj] = true
					walk(st.obj(x.obj).val)
				}
			case SliceV:
				if x.obj > 0 && !set[x.obj] {
					set[x.obj] = true
					walk(st.obj(x.obj).val)
				}
			case MapV:
				if x.obj > 0 && !set[x.obj] {
					set[x.obj] = true
					for _, e := range st.obj(x.obj).val.(*MapData).ents {
						walk(e.k)
						walk(e.v)
					}
				}
			case IfaceV:
				if x.typ != nil {
					walk(x.val)
				}
			case *StructV:
				for _, f := range x.f {
					walk(f)
				}
			case *ArrayV:
				for _, f := range x.e {
					walk(f)
				}
			case FuncV:
				for _, f := range x.env {
					walk(f)
				}
			}
		}
		walk(a[0])
		st.protected = set
		return ret1(st, nil)
	}
	I["verif:verifunprotect"] = func(ex *Exec, st *State, _ *ssa.CallCommon, a []Value) []Outcome {
		st.protected = nil
		return ret1(st, nil)
	}
	// ---- consumer script, context and WaitGroup for the sequentialised goroutine model ----
	I["verif:verifconsumerscript"] = func(ex *Exec, st *State, _ *ssa.CallCommon, a []Value) []Outcome {
		st.script = threadScript{budget: ex.argInt(a[0]), willCancel: a[1].(*Term).c != 0, set: true}
		return ret1(st, nil)
	}
	I["context.WithCancel"] = func(ex *Exec, st *State, call *ssa.CallCommon, a []Value) []Outcome {
		ct := ex.prog.ImportedPackage("context").Type("cancelCtx").Type()
		done := st.alloc(nil, &ChanData{}, "ctx.Done")
		nc := map[int]bool{}
		for k, v := range st.ctxChans {
			nc[k] = v
		}
		nc[done] = true
		st.ctxChans = nc
		// the context object: only identity matters; Done/Err are intercepted
		id := st.alloc(ct, &StructV{[]Value{ChanV{done}}}, "ctx")
		cancel := FuncV{builtin: "ctxcancel", env: []Value{ChanV{done}}}
		return ret1(st, TupleV{IfaceV{typ: types.NewPointer(ct), val: Ptr{obj: id}}, cancel})
	}
	I["(*context.cancelCtx).Done"] = func(ex *Exec, st *State, _ *ssa.CallCommon, a []Value) []Outcome {
		p := a[0].(Ptr)
		return ret1(st, st.obj(p.obj).val.(*StructV).f[0])
	}
	I["(*context.cancelCtx).Err"] = func(ex *Exec, st *State, _ *ssa.CallCommon, a []Value) []Outcome {
		p := a[0].(Ptr)
		ch := st.obj(p.obj).val.(*StructV).f[0].(ChanV)
		if st.obj(ch.obj).val.(*ChanData).closed {
			return ret1(st, ex.newError(st, "context canceled"))
		}
		return ret1(st, IfaceV{})
	}
	I["context.Background"] = func(ex *Exec, st *State, call *ssa.CallCommon, a []Value) []Outcome {
		return ret1(st, IfaceV{typ: ex.prog.ImportedPackage("context").Type("backgroundCtx").Type(), val: ex.zero(ex.prog.ImportedPackage("context").Type("backgroundCtx").Type())})
	}
	wgKey := func(v Value) int { return v.(Ptr).obj*64 + len(v.(Ptr).path) }
	I["(*sync.WaitGroup).Add"] = func(ex *Exec, st *State, _ *ssa.CallCommon, a []Value) []Outcome {
		n := map[int]int{}
		for k, v := range st.wgCount {
			n[k] = v
		}
		n[wgKey(a[0])] += int(sext(a[1].(*Term).c, 64))
		st.wgCount = n
		return ret1(st, nil)
	}
	I["(*sync.WaitGroup).Done"] = func(ex *Exec, st *State, _ *ssa.CallCommon, a []Value) []Outcome {
		n := map[int]int{}
		for k, v := range st.wgCount {
			n[k] = v
		}
		n[wgKey(a[0])]--
		st.wgCount = n
		if r := st.hbRelease(); r > 0 {
			st.hbMut().wgRel[wgKey(a[0])] = r
		}
		return ret1(st, nil)
	}
	I["(*sync.WaitGroup).Wait"] = func(ex *Exec, st *State, _ *ssa.CallCommon, a []Value) []Outcome {
		if st.wgCount[wgKey(a[0])] > 0 {
			ex.deadlock(st, ex.cur, "WaitGroup.Wait blocks forever: the goroutine it waits for has finished without Done, or never ran")
			return nil
		}
		for ch := range st.assumedDone {
			if !st.obj(ch).val.(*ChanData).closed {
				ex.deadlock(st, ex.cur, "WaitGroup.Wait blocks: the producer is parked in a select waiting for a cancellation that has not happened by the time the consumer waits for it")
				return nil
			}
		}
		if st.hb != nil {
			st.hbAcquire(st.hb.wgRel[wgKey(a[0])])
		}
		return ret1(st, nil)
	}
	fileT := func() types.Type {
		return ex.prog.ImportedPackage("os").Type("File").Type()
	}
	I["os.Open"] = func(ex *Exec, st *State, _ *ssa.CallCommon, a []Value) []Outcome {
		ex.assumes["os.Open/(*os.File).Read/Close are stubs over a harness-defined ghost file (content bytes + symbolic length); reads return min(len(buf), remaining) bytes"] = true
		name := ex.argStr(st, a[0])
		f, ok := ex.fileOf(st, name)
		if !ok || f.mode == 1 {
			return ret1(st, TupleV{Ptr{}, ex.newError(st, "stub: file does not exist")})
		}
		if f.mode == 2 {
			return ret1(st, TupleV{Ptr{}, ex.newError(st, "stub: permission denied")})
		}
		id := st.alloc(fileT(), &StructV{[]Value{Ptr{}}}, "file:"+name)
		if st.filePos == nil {
			st.filePos = map[int]*Term{}
		} else {
			np := map[int]*Term{}
			for k, v := range st.filePos {
				np[k] = v
			}
			st.filePos = np
		}
		st.filePos[id] = tt.BV(0, 64)
		nn := map[int]string{}
		for k, v := range st.fileName {
			nn[k] = v
		}
		nn[id] = name
		st.fileName = nn
		return ret1(st, TupleV{Ptr{obj: id}, IfaceV{}})
	}
	I["os.IsNotExist"] = func(ex *Exec, st *State, _ *ssa.CallCommon, a []Value) []Outcome {
		e := a[0].(IfaceV)
		if e.typ == nil {
			return ret1(st, tt.False)
		}
		return ret1(st, tt.Bool(ex.describe(st, e) == "stub: file does not exist"))
	}
	I["(*os.File).Close"] = func(ex *Exec, st *State, _ *ssa.CallCommon, a []Value) []Outcome {
		return ret1(st, IfaceV{})
	}
	// Stat on a ghost file: a FileInfo whose Size() is the ghost file's
	// (symbolic) length; the other FileInfo methods are not modelled.
	I["(*os.File).Stat"] = func(ex *Exec, st *State, _ *ssa.CallCommon, a []Value) []Outcome {
		fp := a[0].(Ptr)
		name, ok := st.fileName[fp.obj]
		if !ok {
			unsup("Stat on a file the stub did not open")
		}
		ex.assumes["(*os.File).Stat is a stub over the ghost file: FileInfo.Size() is its (symbolic) length"] = true
		t := ex.prog.ImportedPackage("os").Type("fileStat").Type()
		id := st.alloc(t, ex.zero(t), "fileinfo:"+name)
		nn := map[int]string{}
		for k, v := range st.fileName {
			nn[k] = v
		}
		nn[id] = name
		st.fileName = nn
		return ret1(st, TupleV{IfaceV{typ: types.NewPointer(t), val: Ptr{obj: id}}, IfaceV{}})
	}
	I["(*os.fileStat).Size"] = func(ex *Exec, st *State, _ *ssa.CallCommon, a []Value) []Outcome {
		fp := a[0].(Ptr)
		name, ok := st.fileName[fp.obj]
		if !ok {
			unsup("Size of a FileInfo the stub did not create")
		}
		f, _ := ex.fileOf(st, name)
		return ret1(st, f.length)
	}
	I["(*os.File).Read"] = func(ex *Exec, st *State, _ *ssa.CallCommon, a []Value) []Outcome {
		fp := a[0].(Ptr)
		buf := a[1].(SliceV)
		name, ok := st.fileName[fp.obj]
		if !ok {
			unsup("Read on a file the stub did not open")
		}
		f, _ := ex.fileOf(st, name)
		pos := st.filePos[fp.obj]
		remaining := tt.Sub(f.length, pos)
		eofErr := IfaceV{}
		// EOF when nothing remains and the buffer is non-empty
		atEOF := tt.BAnd(tt.Sle(remaining, tt.BV(0, 64)), tt.Slt(tt.BV(0, 64), buf.len))
		sE, sR := ex.split(st, atEOF)
		var outs []Outcome
		if sE != nil {
			eofErr = ex.newError(sE, "EOF")
			outs = append(outs, Outcome{st: sE, ret: TupleV{tt.BV(0, 64), eofErr}})
		}
		if sR != nil {
			n := tt.Ite(tt.Slt(buf.len, remaining), buf.len, remaining)
			if ex.capBound(sR, buf) <= 4096 {
				src := SliceV{obj: f.content.obj, pre: f.content.pre, off: tt.Add(f.content.off, pos), len: n, cap: n}
				dst := SliceV{obj: buf.obj, pre: buf.pre, off: buf.off, len: n, cap: n}
				if buf.obj != 0 {
					ex.doCopy(sR, dst, src)
				}
			} else {
				ex.assumes["file reads into buffers larger than 4096 bytes leave the buffer content unmodelled (only the byte count is)"] = true
			}
			np := map[int]*Term{}
			for k, v := range sR.filePos {
				np[k] = v
			}
			np[fp.obj] = tt.Add(pos, n)
			sR.filePos = np
			outs = append(outs, Outcome{st: sR, ret: TupleV{n, IfaceV{}}})
		}
		return outs
	}
}

// installFrameCheck records every store whose target is an object that
// existed after package initialisation (package-level state, shared by all
// handles and goroutines).
func (ex *Exec) installFrameCheck() {
	ex.storeHook = func(st *State, obj int) {
		if st.initMode {
			return
		}
		if obj >= 0 {
			if st.protected != nil && st.protected[obj] {
				where := ""
				if ex.cur != nil {
					where = ex.pos(ex.cur)
				}
				ex.recordViolation(st, "foreignwrite", where, ex.cur.Parent().String(), "store to an object reachable from another handle")
			}
			return
		}
		o := st.obj(obj)
		if strings.Contains(o.name, ".vh") || strings.Contains(o.name, "erif") {
			return // harness-owned package variables
		}
		where := ""
		if ex.cur != nil {
			where = " at " + ex.pos(ex.cur)
		}
		ex.sharedWrites = append(ex.sharedWrites, fmt.Sprintf("store to package-level object %q%s", o.name, where))
	}
}

// ---- POSIX record locks and mmap (the unix pager's environment) ----
//
// RM-lock: fcntl record locks are owned per process and file. F_SETLK fails
// with EAGAIN on a conflicting lock of another process; closing ANY descriptor
// of the file drops every lock the process holds on it; golang.org/x/exp/mmap
// opens and closes a descriptor of its own. Foreign connections are described
// by the SQLite lock bytes they hold.

type ownLock struct {
	start, length int64
	typ           int // 0 read, 1 write
}

type lockTable struct {
	own                                   []ownLock
	fPending, fReserved, fShared, fExclus bool
}

const (
	pendingByte  = 0x40000000
	reservedByte = pendingByte + 1
	sharedFirst  = pendingByte + 2
	sharedSize   = 510
)

func (st *State) lockTab(name string) lockTable {
	if st.locks == nil {
		return lockTable{}
	}
	return st.locks[name]
}

func (st *State) setLockTab(name string, lt lockTable) {
	n := map[string]lockTable{}
	for k, v := range st.locks {
		n[k] = v
	}
	n[name] = lt
	st.locks = n
}

// foreign locks as byte ranges
func (lt lockTable) foreign() []ownLock {
	var r []ownLock
	if lt.fPending {
		r = append(r, ownLock{pendingByte, 1, 1})
	}
	if lt.fReserved {
		r = append(r, ownLock{reservedByte, 1, 1})
	}
	if lt.fShared {
		r = append(r, ownLock{sharedFirst, sharedSize, 0})
	}
	if lt.fExclus {
		r = append(r, ownLock{sharedFirst, sharedSize, 1})
	}
	return r
}

func overlaps(a ownLock, start, length int64) bool {
	return a.start < start+length && start < a.start+a.length
}

func (ex *Exec) registerLockStubs() {
	tt := ex.tt
	I := ex.intr
	note := "OS stubs: POSIX fcntl record locks (per-process ownership, EAGAIN on foreign conflict, close of any descriptor drops all of the process's locks on the file), x/exp/mmap as a fixed-length shared view of the ghost file taken at open (it opens and closes a descriptor of its own)"
	I["verif:verifsetforeignlocks"] = func(ex *Exec, st *State, _ *ssa.CallCommon, a []Value) []Outcome {
		name := ex.argStr(st, a[0])
		lt := st.lockTab(name)
		b := func(v Value) bool { t := v.(*Term); return t.IsConst() && t.c != 0 }
		lt.fPending, lt.fReserved, lt.fShared, lt.fExclus = b(a[1]), b(a[2]), b(a[3]), b(a[4])
		st.setLockTab(name, lt)
		return ret1(st, nil)
	}
	I["verif:verifownlock"] = func(ex *Exec, st *State, _ *ssa.CallCommon, a []Value) []Outcome {
		name := ex.argStr(st, a[0])
		start, length := int64(a[1].(*Term).c), int64(a[2].(*Term).c)
		res := 0
		for _, l := range st.lockTab(name).own {
			if overlaps(l, start, length) {
				res = l.typ + 1
			}
		}
		return ret1(st, tt.BV(uint64(res), 64))
	}
	dropOwn := func(st *State, name string) {
		lt := st.lockTab(name)
		if len(lt.own) > 0 {
			lt.own = nil
			st.setLockTab(name, lt)
		}
	}
	I["(*os.File).Close"] = func(ex *Exec, st *State, _ *ssa.CallCommon, a []Value) []Outcome {
		if fp, ok := a[0].(Ptr); ok && fp.obj != 0 {
			if name, ok := st.fileName[fp.obj]; ok {
				dropOwn(st, name)
			}
		}
		return ret1(st, IfaceV{})
	}
	I["(*os.File).Fd"] = func(ex *Exec, st *State, _ *ssa.CallCommon, a []Value) []Outcome {
		return ret1(st, tt.BV(uint64(a[0].(Ptr).obj), 64))
	}
	I["golang.org/x/exp/mmap.Open"] = func(ex *Exec, st *State, _ *ssa.CallCommon, a []Value) []Outcome {
		ex.assumes[note] = true
		name := ex.argStr(st, a[0])
		f, ok := ex.fileOf(st, name)
		if !ok || f.mode != 0 {
			return ret1(st, TupleV{Ptr{}, ex.newError(st, "stub: file does not exist")})
		}
		// its own descriptor is opened and closed: the process's locks on the file go
		dropOwn(st, name)
		rt := ex.prog.ImportedPackage("golang.org/x/exp/mmap").Type("ReaderAt").Type()
		data := SliceV{obj: f.content.obj, pre: f.content.pre, off: f.content.off, len: f.length, cap: f.length}
		id := st.alloc(rt, &StructV{[]Value{data}}, "mmap:"+name)
		return ret1(st, TupleV{Ptr{obj: id}, IfaceV{}})
	}
	I["(*os.File).ReadAt"] = func(ex *Exec, st *State, _ *ssa.CallCommon, a []Value) []Outcome {
		fp := a[0].(Ptr)
		buf := a[1].(SliceV)
		off := a[2].(*Term)
		name, ok := st.fileName[fp.obj]
		if !ok {
			unsup("ReadAt on a file the stub did not open")
		}
		f, _ := ex.fileOf(st, name)
		remaining := tt.Sub(f.length, off)
		n := tt.Ite(tt.Slt(buf.len, remaining), buf.len, tt.Ite(tt.Slt(remaining, tt.BV(0, 64)), tt.BV(0, 64), remaining))
		if buf.obj != 0 {
			src := SliceV{obj: f.content.obj, pre: f.content.pre, off: tt.Add(f.content.off, off), len: n, cap: n}
			dst := SliceV{obj: buf.obj, pre: buf.pre, off: buf.off, len: n, cap: n}
			ex.doCopy(st, dst, src)
		}
		short, full := ex.split(st, tt.Slt(n, buf.len))
		var outs []Outcome
		if short != nil {
			outs = append(outs, Outcome{st: short, ret: TupleV{n, ex.newError(short, "EOF")}})
		}
		if full != nil {
			outs = append(outs, Outcome{st: full, ret: TupleV{n, IfaceV{}}})
		}
		return outs
	}
	I["syscall.Munmap"] = func(ex *Exec, st *State, _ *ssa.CallCommon, a []Value) []Outcome { return ret1(st, IfaceV{}) }
	I["runtime.SetFinalizer"] = func(ex *Exec, st *State, _ *ssa.CallCommon, a []Value) []Outcome { return ret1(st, nil) }
	I["golang.org/x/sys/unix.FcntlFlock"] = func(ex *Exec, st *State, _ *ssa.CallCommon, a []Value) []Outcome {
		ex.assumes[note] = true
		fd := int(a[0].(*Term).c)
		name, ok := st.fileName[fd]
		if !ok {
			return ret1(st, ex.newError(st, "bad file descriptor"))
		}
		cmd := int(a[1].(*Term).c)
		lp := a[2].(Ptr)
		lk := ex.load(st, lp).(*StructV)
		typ := int(sext(lk.f[0].(*Term).c, 16))
		start, length := int64(lk.f[2].(*Term).c), int64(lk.f[3].(*Term).c)
		lt := st.lockTab(name)
		conflict := -1
		for _, fl := range lt.foreign() {
			if overlaps(fl, start, length) && (typ == 1 || fl.typ == 1) {
				conflict = fl.typ
			}
		}
		if cmd == 7 { // F_SETLKW: as F_SETLK, but a conflicting lock blocks the caller
			if typ != 2 && conflict >= 0 {
				ex.deadlock(st, ex.cur, "F_SETLKW blocks for as long as another process holds a conflicting lock (the foreign connections of the model never release theirs)")
				return nil
			}
			cmd = 6
		}
		switch cmd {
		case 6: // F_SETLK
			if typ == 2 { // F_UNLCK
				var keep []ownLock
				for _, l := range lt.own {
					if !overlaps(l, start, length) {
						keep = append(keep, l)
					}
				}
				lt.own = keep
				st.setLockTab(name, lt)
				return ret1(st, IfaceV{})
			}
			if conflict >= 0 {
				return ret1(st, ex.newError(st, "resource temporarily unavailable"))
			}
			var keep []ownLock
			for _, l := range lt.own {
				if !overlaps(l, start, length) {
					keep = append(keep, l)
				}
			}
			lt.own = append(keep, ownLock{start, length, typ})
			st.setLockTab(name, lt)
			return ret1(st, IfaceV{})
		case 5: // F_GETLK
			nf := append([]Value(nil), lk.f...)
			if conflict >= 0 {
				nf[0] = tt.BV(uint64(conflict), 16)
			} else {
				nf[0] = tt.BV(2, 16)
			}
			ex.store(st, lp, &StructV{nf})
			return ret1(st, IfaceV{})
		}
		unsup("FcntlFlock cmd %d", cmd)
		return nil
	}
}
