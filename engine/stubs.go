package main

// Environment stubs (file system for the journal probe) and the C20 frame
// check. The stubs are contracts, not implementations: every one is listed in
// the evidence under assumptions when used.

import (
	"fmt"
	"go/types"

	"golang.org/x/tools/go/ssa"
)

// ghost file: set by the harness with verifSetFile(name, content, length, mode)
// mode: 0 = exists, 1 = does not exist, 2 = open fails with another error
type ghostFile struct {
	content SliceV
	length  *Term
	mode    int
}

func (ex *Exec) fileOf(st *State, name string) (ghostFile, bool) {
	if st.files == nil {
		return ghostFile{}, false
	}
	f, ok := st.files[name]
	return f, ok
}

func (ex *Exec) registerStubs() {
	tt := ex.tt
	I := ex.intr
	I["verif:verifsetfile"] = func(ex *Exec, st *State, _ *ssa.CallCommon, a []Value) []Outcome {
		name := ex.argStr(st, a[0])
		nf := map[string]ghostFile{}
		for k, v := range st.files {
			nf[k] = v
		}
		nf[name] = ghostFile{content: a[1].(SliceV), length: a[2].(*Term), mode: ex.argInt(a[3])}
		st.files = nf
		return ret1(st, nil)
	}
	// verifPadFile(name, length): the ghost file's length becomes `length`
	// (bytes beyond the given content are zeros nobody reads)
	pad := func(ex *Exec, st *State, _ *ssa.CallCommon, a []Value) []Outcome {
		name := ex.argStr(st, a[0])
		f, ok := ex.fileOf(st, name)
		if !ok || f.mode != 0 {
			return ret1(st, nil)
		}
		nf := map[string]ghostFile{}
		for k, v := range st.files {
			nf[k] = v
		}
		f.length = a[1].(*Term)
		nf[name] = f
		st.files = nf
		return ret1(st, nil)
	}
	I["verif:verifpadfile"] = pad
	I["verif:vhpadfile"] = pad
	fileT := func() types.Type {
		return ex.prog.ImportedPackage("os").Type("File").Type()
	}
	I["os.Open"] = func(ex *Exec, st *State, _ *ssa.CallCommon, a []Value) []Outcome {
		ex.assumes["os.Open/(*os.File).Read/Close are stubs over a harness-defined ghost file (content bytes + symbolic length); reads return min(len(buf), remaining) bytes"] = true
		name := ex.argStr(st, a[0])
		f, ok := ex.fileOf(st, name)
		if !ok || f.mode == 1 {
			return ret1(st, TupleV{Ptr{}, ex.newError(st, "stub: file does not exist")})
		}
		if f.mode == 2 {
			return ret1(st, TupleV{Ptr{}, ex.newError(st, "stub: permission denied")})
		}
		id := st.alloc(fileT(), &StructV{[]Value{Ptr{}}}, "file:"+name)
		if st.filePos == nil {
			st.filePos = map[int]*Term{}
		} else {
			np := map[int]*Term{}
			for k, v := range st.filePos {
				np[k] = v
			}
			st.filePos = np
		}
		st.filePos[id] = tt.BV(0, 64)
		if st.fileName == nil {
			st.fileName = map[int]string{}
		}
		st.fileName[id] = name
		return ret1(st, TupleV{Ptr{obj: id}, IfaceV{}})
	}
	I["os.IsNotExist"] = func(ex *Exec, st *State, _ *ssa.CallCommon, a []Value) []Outcome {
		e := a[0].(IfaceV)
		if e.typ == nil {
			return ret1(st, tt.False)
		}
		return ret1(st, tt.Bool(ex.describe(st, e) == "stub: file does not exist"))
	}
	I["(*os.File).Close"] = func(ex *Exec, st *State, _ *ssa.CallCommon, a []Value) []Outcome {
		return ret1(st, IfaceV{})
	}
	I["(*os.File).Read"] = func(ex *Exec, st *State, _ *ssa.CallCommon, a []Value) []Outcome {
		fp := a[0].(Ptr)
		buf := a[1].(SliceV)
		name, ok := st.fileName[fp.obj]
		if !ok {
			unsup("Read on a file the stub did not open")
		}
		f, _ := ex.fileOf(st, name)
		pos := st.filePos[fp.obj]
		remaining := tt.Sub(f.length, pos)
		eofErr := IfaceV{}
		// EOF when nothing remains and the buffer is non-empty
		atEOF := tt.BAnd(tt.Sle(remaining, tt.BV(0, 64)), tt.Slt(tt.BV(0, 64), buf.len))
		sE, sR := ex.split(st, atEOF)
		var outs []Outcome
		if sE != nil {
			eofErr = ex.newError(sE, "EOF")
			outs = append(outs, Outcome{st: sE, ret: TupleV{tt.BV(0, 64), eofErr}})
		}
		if sR != nil {
			n := tt.Ite(tt.Slt(buf.len, remaining), buf.len, remaining)
			if ex.capBound(sR, buf) <= 4096 {
				src := SliceV{obj: f.content.obj, pre: f.content.pre, off: tt.Add(f.content.off, pos), len: n, cap: n}
				dst := SliceV{obj: buf.obj, pre: buf.pre, off: buf.off, len: n, cap: n}
				if buf.obj != 0 {
					ex.doCopy(sR, dst, src)
				}
			} else {
				ex.assumes["file reads into buffers larger than 4096 bytes leave the buffer content unmodelled (only the byte count is)"] = true
			}
			np := map[int]*Term{}
			for k, v := range sR.filePos {
				np[k] = v
			}
			np[fp.obj] = tt.Add(pos, n)
			sR.filePos = np
			outs = append(outs, Outcome{st: sR, ret: TupleV{n, IfaceV{}}})
		}
		return outs
	}
}

// installFrameCheck records every store whose target is an object that
// existed after package initialisation (package-level state, shared by all
// handles and goroutines).
func (ex *Exec) installFrameCheck() {
	ex.storeHook = func(st *State, obj int) {
		if st.initMode || obj >= 0 {
			return
		}
		o := st.obj(obj)
		where := ""
		if ex.cur != nil {
			where = " at " + ex.pos(ex.cur)
		}
		ex.sharedWrites = append(ex.sharedWrites, fmt.Sprintf("store to package-level object %q%s", o.name, where))
	}
}
