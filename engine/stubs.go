package main

// Environment stubs (os, mmap, fcntl) and the C20 frame check.

import (
	"fmt"
)

func (ex *Exec) registerStubs() {
}

// installFrameCheck records every store whose target is an object that
// existed after package initialisation (package-level state, shared by all
// handles and goroutines).
func (ex *Exec) installFrameCheck() {
	ex.storeHook = func(st *State, obj int) {
		if st.initMode || obj >= 0 {
			return
		}
		o := st.obj(obj)
		ex.sharedWrites = append(ex.sharedWrites, fmt.Sprintf("store to package-level object %q", o.name))
	}
}
