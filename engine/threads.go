package main

// Goroutines, channels and select are outside what this executor encodes
// (see DESIGN.md, C19 schedule clause). Meeting one aborts the harness as
// UNSUPPORTED — never as success.

import "golang.org/x/tools/go/ssa"

func (ex *Exec) chanRecv(c *ctx, x *ssa.UnOp, work *[]*ctx, outs *[]Outcome) bool {
	unsup("channel receive")
	return false
}
func (ex *Exec) chanSend(c *ctx, x *ssa.Send, work *[]*ctx, outs *[]Outcome) bool {
	unsup("channel send")
	return false
}
func (ex *Exec) selectStmt(c *ctx, x *ssa.Select, work *[]*ctx, outs *[]Outcome) bool {
	unsup("select statement")
	return false
}
func (ex *Exec) goStmt(c *ctx, x *ssa.Go, fv FuncV, args []Value, work *[]*ctx, outs *[]Outcome) bool {
	unsup("go statement")
	return false
}
