package main

// Goroutines, channels and select are outside what this executor encodes
// (see DESIGN.md, C19 schedule clause). Meeting one aborts the harness as
// UNSUPPORTED — never as success.

import (
	"fmt"
	"go/types"

	"golang.org/x/tools/go/ssa"
)

// Buffered channels used sequentially are supported: a send needs free
// capacity, a receive needs a queued element or a closed channel. Anything
// that would block is a schedule question and aborts the harness.
func (ex *Exec) chanRecv(c *ctx, x *ssa.UnOp, work *[]*ctx, outs *[]Outcome) bool {
	ch := ex.val(c, x.X).(ChanV)
	if ch.obj == 0 {
		unsup("receive from nil channel (blocks forever)")
	}
	o := c.st.mut(ch.obj)
	cd := *o.val.(*ChanData)
	elem := x.X.Type().Underlying().(*types.Chan).Elem()
	var v Value
	ok := true
	switch {
	case len(cd.buf) > 0:
		v = cd.buf[0]
		cd.buf = append([]Value(nil), cd.buf[1:]...)
		if len(cd.rel) > 0 {
			c.st.hbAcquire(cd.rel[0])
			cd.rel = append([]int(nil), cd.rel[1:]...)
		}
		o.val = &cd
	case cd.closed:
		v, ok = ex.zero(elem), false
		c.st.hbAcquire(cd.closedRel)
	default:
		if c.st.script.set {
			ex.deadlock(c.st, x, "receive blocks forever: the channel is empty, still open, and its producer has finished")
			return false
		}
		unsup("receive on an empty open channel would block (goroutine schedules are outside the executor)")
	}
	if x.CommaOk {
		ex.set(c, x, TupleV{v, ex.tt.Bool(ok)})
	} else {
		ex.set(c, x, v)
	}
	c.pc++
	return true
}
func (ex *Exec) chanSend(c *ctx, x *ssa.Send, work *[]*ctx, outs *[]Outcome) bool {
	ch := ex.val(c, x.Chan).(ChanV)
	if ch.obj == 0 {
		unsup("send on nil channel (blocks forever)")
	}
	o := c.st.mut(ch.obj)
	cd := *o.val.(*ChanData)
	if cd.closed {
		ex.obligations++
		ex.recordViolation(c.st, "panic", ex.pos(x), c.fn.String(), "send on closed channel")
		return false
	}
	if len(cd.buf) >= cd.cap {
		unsup("send on a full channel would block (goroutine schedules are outside the executor)")
	}
	cd.buf = append(append([]Value(nil), cd.buf...), ex.val(c, x.X))
	cd.rel = append(append([]int(nil), cd.rel...), c.st.hbRelease())
	o.val = &cd
	c.pc++
	return true
}
// ---- goroutines, sequentialised -------------------------------------------
//
// The only concurrency in the code base is the driver's producer goroutine:
// it hands rows over an unbuffered channel inside
// `select { case <-ctx.Done(): …; case ch <- row: … }` and finishes with
// close(ch), rows.err = …, wg.Done(). With ONE consumer that calls Next k times
// and then Close (cancel + wg.Wait) the system is a coroutine, and every
// interleaving is equivalent to: the producer runs to completion at the `go`
// statement under a *consumer script* (how many sends will be received, whether
// the consumer cancels afterwards), the sent values wait in the channel, then
// the consumer runs. That is what is implemented here:
//   go f(x)            f runs to completion right away (forks as any call)
//   unbuffered send    succeeds while the script's receive budget lasts
//   <-ctx.Done()       ready once the budget is used up and the script cancels
//   select             forks over the ready cases; none ready + blocking = deadlock
//   recv / wg.Wait     by the consumer afterwards; would-block = deadlock finding
// Outside the model (stated in MANIFEST): orderings *inside* the producer's
// epilogue relative to the consumer (e.g. close before rows.err is set), several
// consumers, cancellation arriving while a receive is pending.

type threadScript struct {
	budget     int  // sends on unbuffered channels that will be received
	willCancel bool // the consumer cancels / closes after that
	set        bool
}

func (ex *Exec) deadlock(st *State, in ssa.Instruction, what string) {
	ex.obligations++
	fn := ""
	if in != nil {
		fn = in.Parent().String()
	}
	site := "deadlock"
	if in != nil {
		site = ex.pos(in)
	}
	ex.recordViolation(st, "deadlock", site, fn, what)
}

func (ex *Exec) chanReadyRecv(st *State, ch ChanV) (ready bool) {
	if ch.obj == 0 {
		return false
	}
	cd := st.obj(ch.obj).val.(*ChanData)
	return len(cd.buf) > 0 || cd.closed
}

func (ex *Exec) selectStmt(c *ctx, x *ssa.Select, work *[]*ctx, outs *[]Outcome) bool {
	tt := ex.tt
	st := c.st
	// result tuple: (index, recvOk, r_0..r_n-1) with one r per receive state
	nrecv := 0
	for _, s := range x.States {
		if s.Dir == types.RecvOnly {
			nrecv++
		}
	}
	mkResult := func(s *State, idx int, recvOk bool, recvIdx int, v Value) TupleV {
		t := TupleV{tt.BV(uint64(int64(idx)), 64), tt.Bool(recvOk)}
		ri := 0
		for _, sst := range x.States {
			if sst.Dir != types.RecvOnly {
				continue
			}
			elem := sst.Chan.Type().Underlying().(*types.Chan).Elem()
			if ri == recvIdx && v != nil {
				t = append(t, v)
			} else {
				t = append(t, ex.zero(elem))
			}
			ri++
		}
		return t
	}
	type ready struct {
		idx int
	}
	var rdy []int
	for i, s := range x.States {
		ch := ex.val(c, s.Chan).(ChanV)
		if s.Dir == types.RecvOnly {
			if ex.chanReadyRecv(st, ch) {
				rdy = append(rdy, i)
			} else if st.ctxChans[ch.obj] && st.script.set && st.script.budget == 0 && st.script.willCancel {
				// the consumer cancels once it has taken what it wanted. That is an
				// assumption about the future: it is checked when the consumer waits
				// for the producer (WaitGroup.Wait) — by then this very channel must
				// have been closed, or the real producer would still be parked here.
				rdy = append(rdy, i)
			}
		} else {
			if ch.obj == 0 {
				continue
			}
			cd := st.obj(ch.obj).val.(*ChanData)
			if cd.closed {
				rdy = append(rdy, i) // will panic
			} else if len(cd.buf) < cd.cap {
				rdy = append(rdy, i)
			} else if cd.cap == 0 && st.script.set && st.script.budget > 0 {
				rdy = append(rdy, i)
			}
		}
	}
	if len(rdy) == 0 {
		if !x.Blocking {
			ex.set(c, x, mkResult(st, -1, false, -1, nil))
			c.pc++
			return true
		}
		ex.deadlock(st, x, "select blocks forever: no case can become ready under the consumer script (goroutine leak)")
		return false
	}
	for k, i := range rdy {
		ci := c
		if k < len(rdy)-1 {
			ci = c.clone()
			ex.forks++
		}
		s := x.States[i]
		ch := ex.val(ci, s.Chan).(ChanV)
		if s.Dir == types.RecvOnly {
			ri := 0
			for _, sst := range x.States[:i] {
				if sst.Dir == types.RecvOnly {
					ri++
				}
			}
			o := ci.st.mut(ch.obj)
			cd := *o.val.(*ChanData)
			elem := s.Chan.Type().Underlying().(*types.Chan).Elem()
			var v Value = ex.zero(elem)
			ok := false
			if len(cd.buf) == 0 && !cd.closed {
				// taken on the strength of the script's promise to cancel
				na := map[int]bool{}
				for k, b := range ci.st.assumedDone {
					na[k] = b
				}
				na[ch.obj] = true
				ci.st.assumedDone = na
			}
			if len(cd.buf) > 0 {
				v, ok = cd.buf[0], true
				cd.buf = append([]Value(nil), cd.buf[1:]...)
				if len(cd.rel) > 0 {
					ci.st.hbAcquire(cd.rel[0])
					cd.rel = append([]int(nil), cd.rel[1:]...)
				}
				o.val = &cd
			} else if cd.closed {
				ci.st.hbAcquire(cd.closedRel)
			}
			ex.set(ci, x, mkResult(ci.st, i, ok, ri, v))
		} else {
			o := ci.st.mut(ch.obj)
			cd := *o.val.(*ChanData)
			if cd.closed {
				ex.obligations++
				ex.recordViolation(ci.st, "panic", ex.pos(x), c.fn.String(), "send on closed channel")
				continue
			}
			if cd.cap == 0 {
				ci.st.script.budget--
			}
			cd.buf = append(append([]Value(nil), cd.buf...), ex.val(ci, s.Send))
			cd.rel = append(append([]int(nil), cd.rel...), ci.st.hbRelease())
			o.val = &cd
			ex.set(ci, x, mkResult(ci.st, i, false, -1, nil))
		}
		ci.pc++
		*work = append(*work, ci)
	}
	return false
}

// goStmt: the goroutine runs to completion here (see the comment above).
func (ex *Exec) goStmt(c *ctx, x *ssa.Go, fv FuncV, args []Value, work *[]*ctx, outs *[]Outcome) bool {
	if !c.st.script.set {
		unsup("go statement without a consumer script (verifConsumerScript): goroutine schedules are only encoded for the sequentialised producer/consumer pattern")
	}
	ex.assumes["goroutines are sequentialised: the producer started by `go` runs to completion under the harness's consumer script (receive budget, then cancel); only single-consumer rendezvous patterns are covered"] = true
	if c.st.hb != nil {
		unsup("second go statement on one path: the happens-before bookkeeping covers one producer goroutine")
	}
	c.st.hb = &hbState{tok: c.st.tok, inProd: true, acc: map[int]map[string]hbAcc{}, wgRel: map[int]int{}}
	res := ex.callFunc(c.st, fv, args, nil)
	for i, o := range res {
		ci := c
		if i < len(res)-1 {
			ci = c.clone()
		}
		ci.st = o.st
		ci.st.hbMut().inProd = false
		if o.pan != nil {
			ex.obligations++
			ex.recordViolation(o.st, "panic", ex.pos(x), c.fn.String(), "panic in goroutine: "+o.pan.msg)
			continue
		}
		ci.pc++
		*work = append(*work, ci)
	}
	return false
}

// ---- happens-before check on top of the sequentialisation ------------------
//
// Running the producer to completion at the `go` statement hides one class of
// schedule-dependent behaviour: memory the two sides share *outside* the
// channel (the driver's rows.err). The executor therefore keeps Lamport-style
// bookkeeping for the single producer / single consumer pair:
//   * the producer's release events are numbered 1, 2, … in program order:
//     every send, close(ch), WaitGroup.Done, cancel();
//   * every load/store the producer performs is recorded with the number of
//     release events already performed (its epoch e): the access
//     happens-before release #e+1 and every later one;
//   * the consumer acquires release #i by receiving the value sent by it, by
//     seeing the close it stands for, or by returning from the Wait its Done
//     feeds;
//   * a consumer load of a location the producer stored to (or a consumer store
//     to one the producer loaded or stored) needs acquired ≥ e+1 — otherwise
//     the two accesses are unordered in some schedule: a `race` finding, which
//     is confirmed natively by replaying the harness under `go test -race`.
// Only ordering from the producer to the consumer is tracked; an edge from the
// consumer's cancel() to the producer is ignored, which can only add findings
// (they would then fail native confirmation and surface as INCONCLUSIVE).
// Covered accesses: ssa loads and stores (field, element, pointer); bulk
// copy/append traffic is not recorded.

type hbAcc struct {
	path  []PE
	write bool
	epoch int
	site  string
}

type hbState struct {
	tok     *ownerTok
	inProd  bool
	prodRel int
	consAcq int
	acc     map[int]map[string]hbAcc
	wgRel   map[int]int
}

func (st *State) hbMut() *hbState {
	h := st.hb
	if h.tok == st.tok {
		return h
	}
	n := &hbState{tok: st.tok, inProd: h.inProd, prodRel: h.prodRel, consAcq: h.consAcq}
	n.acc = make(map[int]map[string]hbAcc, len(h.acc))
	for k, m := range h.acc {
		nm := make(map[string]hbAcc, len(m))
		for kk, a := range m {
			nm[kk] = a
		}
		n.acc[k] = nm
	}
	n.wgRel = make(map[int]int, len(h.wgRel))
	for k, v := range h.wgRel {
		n.wgRel[k] = v
	}
	st.hb = n
	return n
}

// hbRelease numbers a release event of the producer (0 when the caller is not
// the producer).
func (st *State) hbRelease() int {
	if st.hb == nil || !st.hb.inProd {
		return 0
	}
	h := st.hbMut()
	h.prodRel++
	return h.prodRel
}

func (st *State) hbAcquire(rel int) {
	if st.hb == nil || st.hb.inProd || rel <= st.hb.consAcq {
		return
	}
	st.hbMut().consAcq = rel
}

func hbPathKey(path []PE) string {
	var b []byte
	for _, pe := range path {
		if pe.idx == nil {
			b = append(b, '.')
			b = strconvAppendInt(b, pe.field)
		} else if pe.idx.IsConst() {
			b = append(b, '[')
			b = strconvAppendInt(b, int(pe.idx.c))
		} else {
			b = append(b, '[', '*')
		}
	}
	return string(b)
}

func strconvAppendInt(b []byte, n int) []byte {
	if n < 0 {
		b = append(b, '-')
		n = -n
	}
	var t [20]byte
	i := len(t)
	for {
		i--
		t[i] = byte('0' + n%10)
		n /= 10
		if n == 0 {
			break
		}
	}
	return append(b, t[i:]...)
}

// hbOverlap: one path is a prefix of the other (symbolic indexes overlap with
// everything).
func hbOverlap(a, b []PE) bool {
	n := len(a)
	if len(b) < n {
		n = len(b)
	}
	for i := 0; i < n; i++ {
		x, y := a[i], b[i]
		if (x.idx == nil) != (y.idx == nil) {
			return true // different views of the same storage: be conservative
		}
		if x.idx == nil {
			if x.field != y.field {
				return false
			}
			continue
		}
		if x.idx.IsConst() && y.idx.IsConst() && x.idx.c != y.idx.c {
			return false
		}
	}
	return true
}

func (ex *Exec) hbAccess(st *State, p Ptr, write bool) {
	h := st.hb
	if h.inProd {
		key := hbPathKey(p.path)
		if write {
			key += "w"
		}
		if m := h.acc[p.obj]; m != nil {
			if a, ok := m[key]; ok && a.epoch == h.prodRel {
				return
			}
		}
		h = st.hbMut()
		m := h.acc[p.obj]
		if m == nil {
			m = map[string]hbAcc{}
			h.acc[p.obj] = m
		}
		site := ""
		if ex.cur != nil {
			site = ex.pos(ex.cur)
		}
		m[key] = hbAcc{path: append([]PE(nil), p.path...), write: write, epoch: h.prodRel, site: site}
		return
	}
	m := h.acc[p.obj]
	if m == nil {
		return
	}
	for _, a := range m {
		if !a.write && !write {
			continue
		}
		if h.consAcq > a.epoch || !hbOverlap(a.path, p.path) {
			continue
		}
		site, fn := "race", ""
		if ex.cur != nil {
			site, fn = ex.pos(ex.cur), ex.cur.Parent().String()
		}
		what := "load"
		if write {
			what = "store"
		}
		pw := "load"
		if a.write {
			pw = "store"
		}
		ex.obligations++
		ex.recordViolation(st, "race", site, fn, fmt.Sprintf("data race: this %s is not ordered after the goroutine's %s to the same location at %s (the goroutine publishes it with its release event #%d; the caller has synchronised only up to #%d)", what, pw, a.site, a.epoch+1, h.consAcq))
		return
	}
}
