package main

// Goroutines, channels and select are outside what this executor encodes
// (see DESIGN.md, C19 schedule clause). Meeting one aborts the harness as
// UNSUPPORTED — never as success.

import (
	"go/types"

	"golang.org/x/tools/go/ssa"
)

// Buffered channels used sequentially are supported: a send needs free
// capacity, a receive needs a queued element or a closed channel. Anything
// that would block is a schedule question and aborts the harness.
func (ex *Exec) chanRecv(c *ctx, x *ssa.UnOp, work *[]*ctx, outs *[]Outcome) bool {
	ch := ex.val(c, x.X).(ChanV)
	if ch.obj == 0 {
		unsup("receive from nil channel (blocks forever)")
	}
	o := c.st.mut(ch.obj)
	cd := *o.val.(*ChanData)
	elem := x.X.Type().Underlying().(*types.Chan).Elem()
	var v Value
	ok := true
	switch {
	case len(cd.buf) > 0:
		v = cd.buf[0]
		cd.buf = append([]Value(nil), cd.buf[1:]...)
		o.val = &cd
	case cd.closed:
		v, ok = ex.zero(elem), false
	default:
		if c.st.script.set {
			ex.deadlock(c.st, x, "receive blocks forever: the channel is empty, still open, and its producer has finished")
			return false
		}
		unsup("receive on an empty open channel would block (goroutine schedules are outside the executor)")
	}
	if x.CommaOk {
		ex.set(c, x, TupleV{v, ex.tt.Bool(ok)})
	} else {
		ex.set(c, x, v)
	}
	c.pc++
	return true
}
func (ex *Exec) chanSend(c *ctx, x *ssa.Send, work *[]*ctx, outs *[]Outcome) bool {
	ch := ex.val(c, x.Chan).(ChanV)
	if ch.obj == 0 {
		unsup("send on nil channel (blocks forever)")
	}
	o := c.st.mut(ch.obj)
	cd := *o.val.(*ChanData)
	if cd.closed {
		ex.obligations++
		ex.recordViolation(c.st, "panic", ex.pos(x), c.fn.String(), "send on closed channel")
		return false
	}
	if len(cd.buf) >= cd.cap {
		unsup("send on a full channel would block (goroutine schedules are outside the executor)")
	}
	cd.buf = append(append([]Value(nil), cd.buf...), ex.val(c, x.X))
	o.val = &cd
	c.pc++
	return true
}
// ---- goroutines, sequentialised -------------------------------------------
//
// The only concurrency in the code base is the driver's producer goroutine:
// it hands rows over an unbuffered channel inside
// `select { case <-ctx.Done(): …; case ch <- row: … }` and finishes with
// close(ch), rows.err = …, wg.Done(). With ONE consumer that calls Next k times
// and then Close (cancel + wg.Wait) the system is a coroutine, and every
// interleaving is equivalent to: the producer runs to completion at the `go`
// statement under a *consumer script* (how many sends will be received, whether
// the consumer cancels afterwards), the sent values wait in the channel, then
// the consumer runs. That is what is implemented here:
//   go f(x)            f runs to completion right away (forks as any call)
//   unbuffered send    succeeds while the script's receive budget lasts
//   <-ctx.Done()       ready once the budget is used up and the script cancels
//   select             forks over the ready cases; none ready + blocking = deadlock
//   recv / wg.Wait     by the consumer afterwards; would-block = deadlock finding
// Outside the model (stated in MANIFEST): orderings *inside* the producer's
// epilogue relative to the consumer (e.g. close before rows.err is set), several
// consumers, cancellation arriving while a receive is pending.

type threadScript struct {
	budget     int  // sends on unbuffered channels that will be received
	willCancel bool // the consumer cancels / closes after that
	set        bool
}

func (ex *Exec) deadlock(st *State, in ssa.Instruction, what string) {
	ex.obligations++
	fn := ""
	if in != nil {
		fn = in.Parent().String()
	}
	site := "deadlock"
	if in != nil {
		site = ex.pos(in)
	}
	ex.recordViolation(st, "deadlock", site, fn, what)
}

func (ex *Exec) chanReadyRecv(st *State, ch ChanV) (ready bool) {
	if ch.obj == 0 {
		return false
	}
	cd := st.obj(ch.obj).val.(*ChanData)
	return len(cd.buf) > 0 || cd.closed
}

func (ex *Exec) selectStmt(c *ctx, x *ssa.Select, work *[]*ctx, outs *[]Outcome) bool {
	tt := ex.tt
	st := c.st
	// result tuple: (index, recvOk, r_0..r_n-1) with one r per receive state
	nrecv := 0
	for _, s := range x.States {
		if s.Dir == types.RecvOnly {
			nrecv++
		}
	}
	mkResult := func(s *State, idx int, recvOk bool, recvIdx int, v Value) TupleV {
		t := TupleV{tt.BV(uint64(int64(idx)), 64), tt.Bool(recvOk)}
		ri := 0
		for _, sst := range x.States {
			if sst.Dir != types.RecvOnly {
				continue
			}
			elem := sst.Chan.Type().Underlying().(*types.Chan).Elem()
			if ri == recvIdx && v != nil {
				t = append(t, v)
			} else {
				t = append(t, ex.zero(elem))
			}
			ri++
		}
		return t
	}
	type ready struct {
		idx int
	}
	var rdy []int
	for i, s := range x.States {
		ch := ex.val(c, s.Chan).(ChanV)
		if s.Dir == types.RecvOnly {
			if ex.chanReadyRecv(st, ch) {
				rdy = append(rdy, i)
			} else if st.ctxChans[ch.obj] && st.script.set && st.script.budget == 0 && st.script.willCancel {
				// the consumer cancels once it has taken what it wanted. That is an
				// assumption about the future: it is checked when the consumer waits
				// for the producer (WaitGroup.Wait) — by then this very channel must
				// have been closed, or the real producer would still be parked here.
				rdy = append(rdy, i)
			}
		} else {
			if ch.obj == 0 {
				continue
			}
			cd := st.obj(ch.obj).val.(*ChanData)
			if cd.closed {
				rdy = append(rdy, i) // will panic
			} else if len(cd.buf) < cd.cap {
				rdy = append(rdy, i)
			} else if cd.cap == 0 && st.script.set && st.script.budget > 0 {
				rdy = append(rdy, i)
			}
		}
	}
	if len(rdy) == 0 {
		if !x.Blocking {
			ex.set(c, x, mkResult(st, -1, false, -1, nil))
			c.pc++
			return true
		}
		ex.deadlock(st, x, "select blocks forever: no case can become ready under the consumer script (goroutine leak)")
		return false
	}
	for k, i := range rdy {
		ci := c
		if k < len(rdy)-1 {
			ci = c.clone()
			ex.forks++
		}
		s := x.States[i]
		ch := ex.val(ci, s.Chan).(ChanV)
		if s.Dir == types.RecvOnly {
			ri := 0
			for _, sst := range x.States[:i] {
				if sst.Dir == types.RecvOnly {
					ri++
				}
			}
			o := ci.st.mut(ch.obj)
			cd := *o.val.(*ChanData)
			elem := s.Chan.Type().Underlying().(*types.Chan).Elem()
			var v Value = ex.zero(elem)
			ok := false
			if len(cd.buf) == 0 && !cd.closed {
				// taken on the strength of the script's promise to cancel
				na := map[int]bool{}
				for k, b := range ci.st.assumedDone {
					na[k] = b
				}
				na[ch.obj] = true
				ci.st.assumedDone = na
			}
			if len(cd.buf) > 0 {
				v, ok = cd.buf[0], true
				cd.buf = append([]Value(nil), cd.buf[1:]...)
				o.val = &cd
			}
			ex.set(ci, x, mkResult(ci.st, i, ok, ri, v))
		} else {
			o := ci.st.mut(ch.obj)
			cd := *o.val.(*ChanData)
			if cd.closed {
				ex.obligations++
				ex.recordViolation(ci.st, "panic", ex.pos(x), c.fn.String(), "send on closed channel")
				continue
			}
			if cd.cap == 0 {
				ci.st.script.budget--
			}
			cd.buf = append(append([]Value(nil), cd.buf...), ex.val(ci, s.Send))
			o.val = &cd
			ex.set(ci, x, mkResult(ci.st, i, false, -1, nil))
		}
		ci.pc++
		*work = append(*work, ci)
	}
	return false
}

// goStmt: the goroutine runs to completion here (see the comment above).
func (ex *Exec) goStmt(c *ctx, x *ssa.Go, fv FuncV, args []Value, work *[]*ctx, outs *[]Outcome) bool {
	if !c.st.script.set {
		unsup("go statement without a consumer script (verifConsumerScript): goroutine schedules are only encoded for the sequentialised producer/consumer pattern")
	}
	ex.assumes["goroutines are sequentialised: the producer started by `go` runs to completion under the harness's consumer script (receive budget, then cancel); only single-consumer rendezvous patterns are covered"] = true
	res := ex.callFunc(c.st, fv, args, nil)
	for i, o := range res {
		ci := c
		if i < len(res)-1 {
			ci = c.clone()
		}
		ci.st = o.st
		if o.pan != nil {
			ex.obligations++
			ex.recordViolation(o.st, "panic", ex.pos(x), c.fn.String(), "panic in goroutine: "+o.pan.msg)
			continue
		}
		ci.pc++
		*work = append(*work, ci)
	}
	return false
}
