package main

// Goroutines, channels and select are outside what this executor encodes
// (see DESIGN.md, C19 schedule clause). Meeting one aborts the harness as
// UNSUPPORTED — never as success.

import (
	"go/types"

	"golang.org/x/tools/go/ssa"
)

// Buffered channels used sequentially are supported: a send needs free
// capacity, a receive needs a queued element or a closed channel. Anything
// that would block is a schedule question and aborts the harness.
func (ex *Exec) chanRecv(c *ctx, x *ssa.UnOp, work *[]*ctx, outs *[]Outcome) bool {
	ch := ex.val(c, x.X).(ChanV)
	if ch.obj == 0 {
		unsup("receive from nil channel (blocks forever)")
	}
	o := c.st.mut(ch.obj)
	cd := *o.val.(*ChanData)
	elem := x.X.Type().Underlying().(*types.Chan).Elem()
	var v Value
	ok := true
	switch {
	case len(cd.buf) > 0:
		v = cd.buf[0]
		cd.buf = append([]Value(nil), cd.buf[1:]...)
		o.val = &cd
	case cd.closed:
		v, ok = ex.zero(elem), false
	default:
		unsup("receive on an empty open channel would block (goroutine schedules are outside the executor)")
	}
	if x.CommaOk {
		ex.set(c, x, TupleV{v, ex.tt.Bool(ok)})
	} else {
		ex.set(c, x, v)
	}
	c.pc++
	return true
}
func (ex *Exec) chanSend(c *ctx, x *ssa.Send, work *[]*ctx, outs *[]Outcome) bool {
	ch := ex.val(c, x.Chan).(ChanV)
	if ch.obj == 0 {
		unsup("send on nil channel (blocks forever)")
	}
	o := c.st.mut(ch.obj)
	cd := *o.val.(*ChanData)
	if cd.closed {
		ex.obligations++
		ex.recordViolation(c.st, "panic", ex.pos(x), c.fn.String(), "send on closed channel")
		return false
	}
	if len(cd.buf) >= cd.cap {
		unsup("send on a full channel would block (goroutine schedules are outside the executor)")
	}
	cd.buf = append(append([]Value(nil), cd.buf...), ex.val(c, x.X))
	o.val = &cd
	c.pc++
	return true
}
func (ex *Exec) selectStmt(c *ctx, x *ssa.Select, work *[]*ctx, outs *[]Outcome) bool {
	unsup("select statement")
	return false
}
func (ex *Exec) goStmt(c *ctx, x *ssa.Go, fv FuncV, args []Value, work *[]*ctx, outs *[]Outcome) bool {
	unsup("go statement")
	return false
}
