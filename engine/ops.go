package main

import (
	"go/token"
	"go/types"
	"unicode/utf8"

	"golang.org/x/tools/go/ssa"
)

func isFloatT(t types.Type) bool {
	b, ok := t.Underlying().(*types.Basic)
	return ok && b.Info()&types.IsFloat != 0
}
func isStringT(t types.Type) bool {
	b, ok := t.Underlying().(*types.Basic)
	return ok && b.Info()&types.IsString != 0
}
func isIntT(t types.Type) bool {
	b, ok := t.Underlying().(*types.Basic)
	return ok && b.Info()&types.IsInteger != 0
}

// capBound: concrete upper bound on the number of elements a slice/string
// value can view.
func (ex *Exec) capBound(st *State, s SliceV) int {
	if s.obj == 0 {
		return 0
	}
	if s.len.IsConst() {
		return int(s.len.c)
	}
	n := len(ex.backing(st, s).e)
	if s.off.IsConst() {
		n -= int(s.off.c)
	}
	return n
}

func (ex *Exec) strEq(st *State, a, b SliceV) *Term {
	tt := ex.tt
	if a.len.IsConst() && b.len.IsConst() && a.len.c != b.len.c {
		return tt.False
	}
	na, nb := ex.capBound(st, a), ex.capBound(st, b)
	n := na
	if nb < n {
		n = nb
	}
	res := tt.Eq(a.len, b.len)
	for k := 0; k < n; k++ {
		kt := tt.BV(uint64(k), 64)
		ea := ex.elemAt(st, a, kt).(*Term)
		eb := ex.elemAt(st, b, kt).(*Term)
		res = tt.BAnd(res, tt.BOr(tt.Sle(a.len, kt), tt.Eq(ea, eb)))
		if res.IsConst() && res.c == 0 {
			return res
		}
	}
	return res
}

// strCmp3 returns a 64-bit term: -1, 0, +1 (lexicographic unsigned bytes, then length).
func (ex *Exec) strCmp3(st *State, a, b SliceV) *Term {
	tt := ex.tt
	na, nb := ex.capBound(st, a), ex.capBound(st, b)
	n := na
	if nb < n {
		n = nb
	}
	m1, z, p1 := tt.BV(^uint64(0), 64), tt.BV(0, 64), tt.BV(1, 64)
	res := tt.Ite(tt.Slt(a.len, b.len), m1, tt.Ite(tt.Slt(b.len, a.len), p1, z))
	for k := n - 1; k >= 0; k-- {
		kt := tt.BV(uint64(k), 64)
		ea := ex.elemAt(st, a, kt).(*Term)
		eb := ex.elemAt(st, b, kt).(*Term)
		past := tt.BOr(tt.Sle(a.len, kt), tt.Sle(b.len, kt))
		inner := tt.Ite(tt.Ult(ea, eb), m1, tt.Ite(tt.Ult(eb, ea), p1, res))
		res = tt.Ite(past, tt.Ite(tt.Slt(a.len, b.len), m1, tt.Ite(tt.Slt(b.len, a.len), p1, z)), inner)
	}
	return res
}

func (ex *Exec) strConcat(st *State, a, b SliceV) SliceV {
	tt := ex.tt
	if a.len.IsConst() && a.len.c == 0 {
		return b
	}
	if b.len.IsConst() && b.len.c == 0 {
		return a
	}
	na, nb := ex.capBound(st, a), ex.capBound(st, b)
	e := make([]Value, na+nb)
	for k := range e {
		kt := tt.BV(uint64(k), 64)
		var va, vb Value
		if k < na {
			va = ex.elemAt(st, a, kt)
		}
		if a.len.IsConst() {
			if k < na {
				e[k] = va
			} else {
				e[k] = ex.elemAtClamped(st, b, tt.BV(uint64(k-na), 64), nb)
			}
			continue
		}
		vb = ex.elemAtClamped(st, b, tt.Sub(kt, a.len), nb)
		if va == nil {
			e[k] = vb
		} else {
			e[k] = tt.Ite(tt.Slt(kt, a.len), va.(*Term), vb.(*Term))
		}
	}
	id := st.alloc(nil, &ArrayV{e: e}, "concat")
	n := tt.Add(a.len, b.len)
	return SliceV{obj: id, off: tt.BV(0, 64), len: n, cap: n, str: true}
}

// elemAtClamped reads s[i] where i may be out of range on infeasible
// branches of an enclosing ite; out-of-range constant indices give 0.
func (ex *Exec) elemAtClamped(st *State, s SliceV, i *Term, n int) Value {
	if i.IsConst() {
		if sext(i.c, 64) < 0 || int(i.c) >= n {
			return ex.tt.BV(0, 8)
		}
	}
	if s.obj == 0 {
		return ex.tt.BV(0, 8)
	}
	a := ex.backing(st, s)
	idx := ex.tt.Add(s.off, i)
	if idx.IsConst() {
		k := int(sext(idx.c, 64))
		if k < 0 || k >= len(a.e) {
			return ex.tt.BV(0, 8)
		}
		return a.e[k]
	}
	return ex.symRead(a, idx, nil)
}

func (ex *Exec) ifaceEq(st *State, a, b IfaceV) *Term {
	tt := ex.tt
	if a.typ == nil || b.typ == nil {
		return tt.Bool(a.typ == nil && b.typ == nil)
	}
	if !types.Identical(a.typ, b.typ) {
		return tt.False
	}
	return ex.valueEq(st, a.val, b.val, a.typ)
}

func (ex *Exec) valueEq(st *State, a, b Value, t types.Type) *Term {
	tt := ex.tt
	switch x := a.(type) {
	case *Term:
		y := b.(*Term)
		if x.kind == KFP || x.kind == KF32 {
			return tt.FCmp(OFEq, x, y)
		}
		return tt.Eq(x, y)
	case Ptr:
		y := b.(Ptr)
		if x.obj != y.obj || len(x.path) != len(y.path) {
			return tt.False
		}
		res := tt.True
		for i := range x.path {
			px, py := x.path[i], y.path[i]
			if (px.idx == nil) != (py.idx == nil) {
				return tt.False
			}
			if px.idx == nil {
				if px.field != py.field {
					return tt.False
				}
			} else {
				res = tt.BAnd(res, tt.Eq(px.idx, py.idx))
			}
		}
		return res
	case SliceV:
		y := b.(SliceV)
		if x.str {
			return ex.strEq(st, x, y)
		}
		unsup("comparing slices")
	case IfaceV:
		return ex.ifaceEq(st, x, b.(IfaceV))
	case *StructV:
		y := b.(*StructV)
		res := tt.True
		s := t.Underlying().(*types.Struct)
		for i := range x.f {
			res = tt.BAnd(res, ex.valueEq(st, x.f[i], y.f[i], s.Field(i).Type()))
		}
		return res
	case *ArrayV:
		y := b.(*ArrayV)
		res := tt.True
		et := t.Underlying().(*types.Array).Elem()
		for i := range x.e {
			res = tt.BAnd(res, ex.valueEq(st, x.e[i], y.e[i], et))
		}
		return res
	case MapV:
		return tt.Bool(x.obj == b.(MapV).obj)
	case ChanV:
		return tt.Bool(x.obj == b.(ChanV).obj)
	case FuncV:
		y := b.(FuncV)
		return tt.Bool(x.fn == nil && x.builtin == "" && y.fn == nil && y.builtin == "")
	case nil:
		return tt.Bool(b == nil)
	}
	unsup("valueEq on %T", a)
	return nil
}

func (ex *Exec) binop(c *ctx, in ssa.Instruction, op token.Token, xv, yv Value, tx, ty types.Type) (Value, bool) {
	tt := ex.tt
	st := c.st
	switch x := xv.(type) {
	case *Term:
		y, ok := yv.(*Term)
		if !ok {
			unsup("binop term vs %T", yv)
		}
		if x.kind == KBool {
			switch op {
			case token.EQL:
				return tt.Eq(x, y), true
			case token.NEQ:
				return tt.BNot(tt.Eq(x, y)), true
			case token.AND, token.LAND:
				return tt.BAnd(x, y), true
			case token.OR, token.LOR:
				return tt.BOr(x, y), true
			}
			unsup("bool binop %s", op)
		}
		if x.kind == KFP || x.kind == KF32 {
			switch op {
			case token.ADD:
				return tt.FBin(OFAdd, x, y), true
			case token.SUB:
				return tt.FBin(OFSub, x, y), true
			case token.MUL:
				return tt.FBin(OFMul, x, y), true
			case token.QUO:
				return tt.FBin(OFDiv, x, y), true
			case token.EQL:
				return tt.FCmp(OFEq, x, y), true
			case token.NEQ:
				return tt.BNot(tt.FCmp(OFEq, x, y)), true
			case token.LSS:
				return tt.FCmp(OFLt, x, y), true
			case token.LEQ:
				return tt.FCmp(OFLe, x, y), true
			case token.GTR:
				return tt.FCmp(OFLt, y, x), true
			case token.GEQ:
				return tt.FCmp(OFLe, y, x), true
			}
			unsup("float binop %s", op)
		}
		signed := isSigned(tx)
		switch op {
		case token.ADD:
			return tt.Add(x, y), true
		case token.SUB:
			return tt.Sub(x, y), true
		case token.MUL:
			return tt.Mul(x, y), true
		case token.QUO, token.REM:
			if !ex.oblige(st, tt.BNot(tt.Eq(y, tt.BV(0, y.w))), "div", ex.pos(in), c.fn.String(), "integer divide by zero") {
				return nil, false
			}
			if op == token.QUO {
				if signed {
					return tt.SDiv(x, y), true
				}
				return tt.UDiv(x, y), true
			}
			if signed {
				return tt.SRem(x, y), true
			}
			return tt.URem(x, y), true
		case token.AND:
			return tt.And(x, y), true
		case token.OR:
			return tt.Or(x, y), true
		case token.XOR:
			return tt.Xor(x, y), true
		case token.AND_NOT:
			return tt.And(x, tt.Not(y)), true
		case token.SHL, token.SHR:
			if isSigned(ty) {
				if !ex.oblige(st, tt.Sle(tt.BV(0, y.w), y), "shift", ex.pos(in), c.fn.String(), "negative shift amount") {
					return nil, false
				}
			}
			// normalise the count to x's width, saturating
			var cnt *Term
			if y.w > x.w {
				big := tt.Ule(tt.BV(uint64(x.w), y.w), y)
				cnt = tt.Ite(big, tt.BV(uint64(x.w), x.w), tt.Extract(y, x.w-1, 0))
			} else {
				cnt = tt.ZExt(y, x.w)
			}
			if op == token.SHL {
				return tt.Shl(x, cnt), true
			}
			if signed {
				return tt.AShr(x, cnt), true
			}
			return tt.LShr(x, cnt), true
		case token.EQL:
			return tt.Eq(x, y), true
		case token.NEQ:
			return tt.BNot(tt.Eq(x, y)), true
		case token.LSS:
			if signed {
				return tt.Slt(x, y), true
			}
			return tt.Ult(x, y), true
		case token.LEQ:
			if signed {
				return tt.Sle(x, y), true
			}
			return tt.Ule(x, y), true
		case token.GTR:
			if signed {
				return tt.Slt(y, x), true
			}
			return tt.Ult(y, x), true
		case token.GEQ:
			if signed {
				return tt.Sle(y, x), true
			}
			return tt.Ule(y, x), true
		}
		unsup("int binop %s", op)
	case SliceV:
		y, ok := yv.(SliceV)
		if !ok {
			unsup("binop slice vs %T", yv)
		}
		if !x.str {
			// slice compared with nil
			var r *Term
			switch {
			case y.obj == 0 && y.len.IsConst() && y.len.c == 0:
				r = tt.Bool(x.obj == 0)
			case x.obj == 0:
				r = tt.Bool(y.obj == 0)
			default:
				unsup("slice comparison")
			}
			if op == token.NEQ {
				r = tt.BNot(r)
			}
			return r, true
		}
		switch op {
		case token.ADD:
			return ex.strConcat(st, x, y), true
		case token.EQL:
			return ex.strEq(st, x, y), true
		case token.NEQ:
			return tt.BNot(ex.strEq(st, x, y)), true
		}
		c3 := ex.strCmp3(st, x, y)
		z := tt.BV(0, 64)
		switch op {
		case token.LSS:
			return tt.Slt(c3, z), true
		case token.LEQ:
			return tt.Sle(c3, z), true
		case token.GTR:
			return tt.Slt(z, c3), true
		case token.GEQ:
			return tt.Sle(z, c3), true
		}
		unsup("string binop %s", op)
	case IfaceV:
		var r *Term
		switch y := yv.(type) {
		case IfaceV:
			r = ex.ifaceEq(st, x, y)
		default:
			unsup("iface compared with %T", yv)
		}
		if op == token.NEQ {
			r = tt.BNot(r)
		}
		return r, true
	default:
		r := ex.valueEq(st, xv, yv, tx)
		if op == token.NEQ {
			r = tt.BNot(r)
		} else if op != token.EQL {
			unsup("binop %s on %T", op, xv)
		}
		return r, true
	}
	return nil, false
}

// convert implements ssa.Convert; may fork (string(rune)).
func (ex *Exec) convert(c *ctx, in ssa.Instruction, v Value, from, to types.Type) []alt {
	tt := ex.tt
	st := c.st
	one := func(v Value) []alt { return []alt{{st, v}} }
	fu, tu := from.Underlying(), to.Underlying()
	switch t := v.(type) {
	case *Term:
		tb, ok := tu.(*types.Basic)
		if !ok {
			unsup("convert scalar to %s", to)
		}
		switch {
		case t.kind == KBV && tb.Info()&types.IsInteger != 0:
			w := intWidth(tb)
			if w <= t.w {
				return one(tt.Extract(t, w-1, 0))
			}
			if isSigned(from) {
				return one(tt.SExt(t, w))
			}
			return one(tt.ZExt(t, w))
		case t.kind == KBV && tb.Info()&types.IsFloat != 0:
			k := KFP
			if tb.Kind() == types.Float32 {
				k = KF32
			}
			return one(tt.FFromInt(t, isSigned(from), k))
		case (t.kind == KFP || t.kind == KF32) && tb.Info()&types.IsInteger != 0:
			return one(tt.FToInt(t, isSigned(to), intWidth(tb)))
		case (t.kind == KFP || t.kind == KF32) && tb.Info()&types.IsFloat != 0:
			k := KFP
			if tb.Kind() == types.Float32 {
				k = KF32
			}
			return one(tt.FCvt(t, k))
		case t.kind == KBV && tb.Info()&types.IsString != 0:
			// string(rune)
			r := t
			if r.w < 32 {
				r = tt.ZExt(r, 32)
			} else if r.w > 32 {
				r = tt.Extract(r, 31, 0)
			}
			if r.IsConst() {
				return one(ex.constStr(st, string(rune(int32(r.c)))))
			}
			return ex.runeToString(st, r)
		case tb.Kind() == types.UnsafePointer:
			unsup("convert to unsafe.Pointer")
		}
		unsup("convert %s -> %s", from, to)
	case SliceV:
		switch {
		case t.str && isStringT(to):
			return one(t)
		case t.str:
			// string -> []byte or []rune
			sl := tu.(*types.Slice)
			if eb, ok := sl.Elem().Underlying().(*types.Basic); !ok || eb.Kind() != types.Uint8 {
				unsup("string to []rune")
			}
			return one(ex.copyBytes(st, t, false))
		case isStringT(to):
			sl := fu.(*types.Slice)
			if eb, ok := sl.Elem().Underlying().(*types.Basic); !ok || eb.Kind() != types.Uint8 {
				unsup("[]rune to string")
			}
			return one(ex.copyBytes(st, t, true))
		}
		return one(t)
	case Ptr:
		return one(t)
	}
	unsup("convert %T: %s -> %s", v, from, to)
	return nil
}

// copyBytes makes a fresh byte buffer holding s's bytes (conversion between
// string and []byte). The copy keeps symbolic length.
func (ex *Exec) copyBytes(st *State, s SliceV, toStr bool) SliceV {
	tt := ex.tt
	z := tt.BV(0, 64)
	if s.len.IsConst() && s.len.c == 0 {
		if toStr {
			return ex.emptyStr()
		}
		id := st.alloc(nil, &ArrayV{}, "bytes")
		return SliceV{obj: id, off: z, len: z, cap: z}
	}
	if toStr && s.str {
		return s
	}
	n := ex.capBound(st, s)
	a := ex.backing(st, s)
	// strings are immutable: a string -> []byte copy is needed, but []byte ->
	// string must also copy because the source may be written later.
	e := make([]Value, n)
	na := &ArrayV{e: e}
	if a.fn != nil {
		off, afn := s.off, a.fn
		na.fn = func(i *Term) *Term { return afn(tt.Add(off, i)) }
	}
	for k := 0; k < n; k++ {
		e[k] = ex.elemAt(st, s, tt.BV(uint64(k), 64))
	}
	id := st.alloc(nil, na, "bytes")
	return SliceV{obj: id, off: z, len: s.len, cap: s.len, str: toStr}
}

func (ex *Exec) runeToString(st *State, r *Term) []alt {
	tt := ex.tt
	var res []alt
	mk := func(s *State, bs ...*Term) {
		e := make([]Value, len(bs))
		for i, b := range bs {
			e[i] = b
		}
		id := s.alloc(nil, &ArrayV{e: e}, "runestr")
		n := tt.BV(uint64(len(bs)), 64)
		res = append(res, alt{s, SliceV{obj: id, off: tt.BV(0, 64), len: n, cap: n, str: true}})
	}
	b8 := func(t *Term) *Term { return tt.Extract(t, 7, 0) }
	c32 := func(v uint64) *Term { return tt.BV(v, 32) }
	cur := st
	// 1 byte
	s1, rest := ex.split(cur, tt.Ult(r, c32(0x80)))
	if s1 != nil {
		mk(s1, b8(r))
	}
	if rest == nil {
		return res
	}
	s2, rest := ex.split(rest, tt.Ult(r, c32(0x800)))
	if s2 != nil {
		mk(s2, tt.Or(c32(0xC0).ext8(tt), b8(tt.LShr(r, c32(6)))), tt.Or(tt.BV(0x80, 8), tt.And(b8(r), tt.BV(0x3f, 8))))
	}
	if rest == nil {
		return res
	}
	// invalid runes (surrogates, > MaxRune) -> U+FFFD
	bad := tt.BOr(tt.Ult(c32(utf8.MaxRune), r), tt.BAnd(tt.Ule(c32(0xD800), r), tt.Ule(r, c32(0xDFFF))))
	sb, rest := ex.split(rest, bad)
	if sb != nil {
		mk(sb, tt.BV(0xEF, 8), tt.BV(0xBF, 8), tt.BV(0xBD, 8))
	}
	if rest == nil {
		return res
	}
	s3, rest := ex.split(rest, tt.Ult(r, c32(0x10000)))
	if s3 != nil {
		mk(s3, tt.Or(tt.BV(0xE0, 8), b8(tt.LShr(r, c32(12)))),
			tt.Or(tt.BV(0x80, 8), tt.And(b8(tt.LShr(r, c32(6))), tt.BV(0x3f, 8))),
			tt.Or(tt.BV(0x80, 8), tt.And(b8(r), tt.BV(0x3f, 8))))
	}
	if rest != nil {
		mk(rest, tt.Or(tt.BV(0xF0, 8), b8(tt.LShr(r, c32(18)))),
			tt.Or(tt.BV(0x80, 8), tt.And(b8(tt.LShr(r, c32(12))), tt.BV(0x3f, 8))),
			tt.Or(tt.BV(0x80, 8), tt.And(b8(tt.LShr(r, c32(6))), tt.BV(0x3f, 8))),
			tt.Or(tt.BV(0x80, 8), tt.And(b8(r), tt.BV(0x3f, 8))))
	}
	return res
}

func (t *Term) ext8(tt *TermTable) *Term { return tt.Extract(t, 7, 0) }

// sliceOp implements ssa.Slice.
func (ex *Exec) sliceOp(c *ctx, x *ssa.Slice) (Value, bool) {
	tt := ex.tt
	st := c.st
	var s SliceV
	isArr := false
	switch xv := ex.val(c, x.X).(type) {
	case SliceV:
		s = xv
	case Ptr:
		if !ex.nilCheck(c, x, xv) {
			return nil, false
		}
		n := x.X.Type().Underlying().(*types.Pointer).Elem().Underlying().(*types.Array).Len()
		nt := tt.BV(uint64(n), 64)
		s = SliceV{obj: xv.obj, pre: xv.path, off: tt.BV(0, 64), len: nt, cap: nt}
		isArr = true
	default:
		unsup("slice of %T", xv)
	}
	_ = isArr
	lo := tt.BV(0, 64)
	if x.Low != nil {
		lo = ex.toInt64(ex.val(c, x.Low).(*Term), x.Low.Type())
	}
	limit := s.cap
	if s.str {
		limit = s.len
	}
	hi := s.len
	if x.High != nil {
		hi = ex.toInt64(ex.val(c, x.High).(*Term), x.High.Type())
	}
	mx := s.cap
	if x.Max != nil {
		mx = ex.toInt64(ex.val(c, x.Max).(*Term), x.Max.Type())
		if !ex.oblige(st, tt.BAnd(tt.Sle(tt.BV(0, 64), mx), tt.Sle(mx, s.cap)), "bounds", ex.pos(x), c.fn.String(), "slice bounds out of range [::max]") {
			return nil, false
		}
		limit = mx
	}
	if x.High != nil {
		// prefer counterexamples that overshoot by more than any spare capacity
		// the runtime may have added (keeps native replays deterministic)
		robust := tt.BOr(tt.Slt(hi, tt.BV(0, 64)), tt.Slt(tt.Add(tt.Add(limit, limit), tt.BV(4096, 64)), hi))
		if !ex.obligeP(st, tt.BAnd(tt.Sle(tt.BV(0, 64), hi), tt.Sle(hi, limit)), robust, "bounds", ex.pos(x), c.fn.String(), "slice bounds out of range [:high]") {
			return nil, false
		}
	}
	if x.Low != nil {
		if !ex.oblige(st, tt.BAnd(tt.Sle(tt.BV(0, 64), lo), tt.Sle(lo, hi)), "bounds", ex.pos(x), c.fn.String(), "slice bounds out of range [low:]") {
			return nil, false
		}
	}
	if s.obj == 0 {
		return s, true
	}
	ns := SliceV{obj: s.obj, pre: s.pre, off: tt.Add(s.off, lo), len: tt.Sub(hi, lo), cap: tt.Sub(mx, lo), str: s.str}
	if s.str {
		ns.cap = ns.len
	}
	return ns, true
}

func (ex *Exec) makeSlice(c *ctx, x *ssa.MakeSlice, work *[]*ctx) bool {
	tt := ex.tt
	st := c.st
	ln := ex.toInt64(ex.val(c, x.Len).(*Term), x.Len.Type())
	cp := ex.toInt64(ex.val(c, x.Cap).(*Term), x.Cap.Type())
	if !ex.oblige(st, tt.BAnd(tt.Sle(tt.BV(0, 64), ln), tt.Sle(ln, cp)), "negmake", ex.pos(x), c.fn.String(), "makeslice: len out of range") {
		return false
	}
	elem := x.Type().Underlying().(*types.Slice).Elem()
	var n int
	if cp.IsConst() {
		n = int(cp.c)
		if n > ex.maxAlloc {
			ex.recordViolation(st, "alloc", ex.pos(x), c.fn.String(), "allocation larger than budget")
			return false
		}
	} else {
		mv := ex.maxValue(st, cp, uint64(ex.maxAlloc))
		if mv > uint64(ex.maxAlloc) {
			ex.obligations++
			// prefer a size the runtime itself refuses (deterministic native replay)
			huge := tt.Ult(tt.BV(1<<50, 64), cp)
			if ex.feasible(st, huge) == Sat {
				ex.recordViolation(st, "alloc", ex.pos(x), c.fn.String(), "allocation size not bounded by budget", huge)
			} else {
				ex.recordViolation(st, "alloc", ex.pos(x), c.fn.String(), "allocation size not bounded by budget", tt.Ult(tt.BV(uint64(ex.maxAlloc), 64), cp))
			}
			// continue under the budget
			ex.assume(st, tt.Ule(cp, tt.BV(uint64(ex.maxAlloc), 64)))
			if ex.feasible(st) != Sat {
				return false
			}
			mv = uint64(ex.maxAlloc)
		}
		n = int(mv)
	}
	e := make([]Value, n)
	if n > 0 {
		z := ex.zero(elem)
		for i := range e {
			e[i] = z
		}
	}
	id := st.alloc(nil, &ArrayV{e: e}, "make")
	ex.set(c, x, SliceV{obj: id, off: tt.BV(0, 64), len: ln, cap: cp})
	c.pc++
	return true
}

// ---- maps ----

func (ex *Exec) keyEq(st *State, a, b Value) *Term {
	switch x := a.(type) {
	case *Term:
		return ex.tt.Eq(x, b.(*Term))
	case SliceV:
		return ex.strEq(st, x, b.(SliceV))
	case IfaceV:
		return ex.ifaceEq(st, x, b.(IfaceV))
	case *StructV, *ArrayV:
		return ex.valueEq(st, a, b, nil)
	}
	unsup("map key %T", a)
	return nil
}

func (ex *Exec) lookup(c *ctx, x *ssa.Lookup, work *[]*ctx) bool {
	tt := ex.tt
	st := c.st
	switch xv := ex.val(c, x.X).(type) {
	case SliceV: // string index
		idx := ex.toInt64(ex.val(c, x.Index).(*Term), x.Index.Type())
		if !ex.oblige(st, tt.Ult(idx, xv.len), "bounds", ex.pos(x), c.fn.String(), "string index out of range") {
			return false
		}
		ex.set(c, x, ex.elemAt(st, xv, idx))
		c.pc++
		return true
	case MapV:
		key := ex.val(c, x.Index)
		vt := x.X.Type().Underlying().(*types.Map).Elem()
		zero := ex.zero(vt)
		var ents []MapEntry
		if xv.obj != 0 {
			ents = st.obj(xv.obj).val.(*MapData).ents
		}
		// try to build a merged result; fall back to forking
		var res Value = zero
		found := tt.False
		mergeOK := true
		for i := len(ents) - 1; i >= 0; i-- {
			eq := ex.keyEq(st, key, ents[i].k)
			if eq.IsConst() && eq.c == 0 {
				continue
			}
			m, ok := ex.mergeValue(eq, ents[i].v, res)
			if !ok {
				mergeOK = false
				break
			}
			res = m
			found = tt.BOr(eq, found)
		}
		if mergeOK {
			if x.CommaOk {
				ex.set(c, x, TupleV{res, found})
			} else {
				ex.set(c, x, res)
			}
			c.pc++
			return true
		}
		// fork per entry
		cur := c
		for i := 0; i < len(ents) && cur != nil; i++ {
			eq := ex.keyEq(cur.st, key, ents[i].k)
			if eq.IsConst() && eq.c == 0 {
				continue
			}
			var hit *ctx
			if eq.IsConst() {
				hit, cur = cur, nil
			} else {
				ts, fs := ex.split(cur.st, eq)
				switch {
				case ts != nil && fs != nil:
					hit = cur.clone()
					hit.st = ts
					cur.st = fs
				case ts != nil:
					hit, cur = cur, nil
				default:
					continue
				}
			}
			if x.CommaOk {
				ex.set(hit, x, TupleV{ents[i].v, tt.True})
			} else {
				ex.set(hit, x, ents[i].v)
			}
			hit.pc++
			*work = append(*work, hit)
		}
		if cur != nil {
			if x.CommaOk {
				ex.set(cur, x, TupleV{zero, tt.False})
			} else {
				ex.set(cur, x, zero)
			}
			cur.pc++
			*work = append(*work, cur)
		}
		return false
	}
	unsup("lookup on %T", ex.val(c, x.X))
	return false
}

func (ex *Exec) mapUpdate(c *ctx, x *ssa.MapUpdate, work *[]*ctx) bool {
	st := c.st
	m := ex.val(c, x.Map).(MapV)
	if m.obj == 0 {
		ex.obligations++
		ex.recordViolation(st, "nil", ex.pos(x), c.fn.String(), "assignment to entry in nil map")
		return false
	}
	key := ex.val(c, x.Key)
	v := ex.val(c, x.Value)
	cur := c
	ents := st.obj(m.obj).val.(*MapData).ents
	for i := 0; i < len(ents) && cur != nil; i++ {
		eq := ex.keyEq(cur.st, key, ents[i].k)
		if eq.IsConst() && eq.c == 0 {
			continue
		}
		var hit *ctx
		if eq.IsConst() {
			hit, cur = cur, nil
		} else {
			ts, fs := ex.split(cur.st, eq)
			switch {
			case ts != nil && fs != nil:
				hit = cur.clone()
				hit.st = ts
				cur.st = fs
			case ts != nil:
				hit, cur = cur, nil
			default:
				continue
			}
		}
		o := hit.st.mut(m.obj)
		ne := append([]MapEntry(nil), o.val.(*MapData).ents...)
		ne[i].v = v
		o.val = &MapData{ne}
		if ex.storeHook != nil {
			ex.storeHook(hit.st, m.obj)
		}
		hit.pc++
		*work = append(*work, hit)
	}
	if cur != nil {
		o := cur.st.mut(m.obj)
		ne := append(append([]MapEntry(nil), o.val.(*MapData).ents...), MapEntry{key, v})
		o.val = &MapData{ne}
		if ex.storeHook != nil {
			ex.storeHook(cur.st, m.obj)
		}
		cur.pc++
		*work = append(*work, cur)
	}
	return false
}

func (ex *Exec) mapDelete(st *State, m MapV, key Value) []*State {
	if m.obj == 0 {
		return []*State{st}
	}
	var res []*State
	cur := st
	ents := st.obj(m.obj).val.(*MapData).ents
	for i := 0; i < len(ents) && cur != nil; i++ {
		eq := ex.keyEq(cur, key, ents[i].k)
		if eq.IsConst() && eq.c == 0 {
			continue
		}
		var hit *State
		if eq.IsConst() {
			hit, cur = cur, nil
		} else {
			ts, fs := ex.split(cur, eq)
			switch {
			case ts != nil && fs != nil:
				hit, cur = ts, fs
			case ts != nil:
				hit, cur = ts, nil
			default:
				continue
			}
		}
		o := hit.mut(m.obj)
		old := o.val.(*MapData).ents
		ne := append(append([]MapEntry(nil), old[:i]...), old[i+1:]...)
		o.val = &MapData{ne}
		res = append(res, hit)
	}
	if cur != nil {
		res = append(res, cur)
	}
	return res
}

// ---- type assertions ----

func (ex *Exec) implements(dyn types.Type, iface *types.Interface) bool {
	return types.Implements(dyn, iface)
}

func (ex *Exec) typeAssert(c *ctx, x *ssa.TypeAssert, work *[]*ctx, outs *[]Outcome) bool {
	tt := ex.tt
	v := ex.val(c, x.X).(IfaceV)
	ok := false
	var res Value
	if it, isIface := x.AssertedType.Underlying().(*types.Interface); isIface {
		if v.typ != nil && ex.implements(v.typ, it) {
			ok = true
			res = v
		} else {
			res = IfaceV{}
		}
	} else {
		if v.typ != nil && types.Identical(v.typ, x.AssertedType) {
			ok = true
			res = v.val
		} else {
			res = ex.zero(x.AssertedType)
		}
	}
	if x.CommaOk {
		ex.set(c, x, TupleV{res, tt.Bool(ok)})
		c.pc++
		return true
	}
	if !ok {
		ex.obligations++
		ex.recordViolation(c.st, "typeassert", ex.pos(x), c.fn.String(), "interface conversion failed")
		ex.startPanic(c, &PanicInfo{msg: "interface conversion"}, work, outs)
		return false
	}
	ex.set(c, x, res)
	c.pc++
	return true
}

// ---- range/next ----

func (ex *Exec) next(c *ctx, x *ssa.Next, work *[]*ctx) bool {
	tt := ex.tt
	st := c.st
	it := ex.val(c, x.Iter).(*RangeIter)
	rng := x.Iter.(*ssa.Range)
	if it.isStr {
		s := it.str
		done, more := ex.split(st, tt.Sle(s.len, it.posT))
		if done != nil {
			cd := c
			if more != nil {
				cd = c.clone()
				cd.st = done
			}
			ex.set(cd, x, TupleV{tt.False, tt.BV(0, 64), tt.BV(0, 32)})
			cd.pc++
			if more != nil {
				*work = append(*work, cd)
			} else {
				return true
			}
		}
		if more == nil {
			return false
		}
		c.st = more
		// decode rune at pos
		sub := SliceV{obj: s.obj, pre: s.pre, off: tt.Add(s.off, it.posT), len: tt.Sub(s.len, it.posT), cap: tt.Sub(s.len, it.posT), str: true}
		dec := ex.prog.ImportedPackage("unicode/utf8").Func("DecodeRuneInString")
		res := ex.callFunc(more, FuncV{fn: dec}, []Value{sub}, nil)
		for i, o := range res {
			ci := c
			if i < len(res)-1 {
				ci = c.clone()
			}
			ci.st = o.st
			t := o.ret.(TupleV)
			r, size := t[0].(*Term), t[1].(*Term)
			ex.set(ci, x, TupleV{tt.True, it.posT, r})
			ni := *it
			ni.posT = tt.Add(it.posT, size)
			ex.set(ci, rng, &ni)
			ci.pc++
			*work = append(*work, ci)
		}
		return false
	}
	// map
	kt := rng.X.Type().Underlying().(*types.Map)
	for it.pos < len(it.keys) {
		k := it.keys[it.pos]
		ni := *it
		ni.pos++
		it = &ni
		// still present? (concrete maps only)
		for _, e := range st.obj(it.mp).val.(*MapData).ents {
			if ex.identical(e.k, k) {
				ex.set(c, x, TupleV{tt.True, k, e.v})
				ex.set(c, rng, it)
				c.pc++
				return true
			}
		}
	}
	ex.set(c, rng, it)
	ex.set(c, x, TupleV{tt.False, ex.zero(kt.Key()), ex.zero(kt.Elem())})
	c.pc++
	return true
}
