package main

import (
	"encoding/json"
	"fmt"
	"go/ast"
	"go/token"
	"os"
	"path/filepath"
	"runtime/debug"
	"sort"
	"strconv"
	"strings"
	"sync"
	"time"

	"golang.org/x/tools/go/packages"
	"golang.org/x/tools/go/ssa"
	"golang.org/x/tools/go/ssa/ssautil"
)

const modPath = "github.com/alicebob/sqlittle"

var pkgDirs = map[string]string{"db": "db", "sql": "sql", "root": "", "driver": "driver"}

type Program struct {
	prog    *ssa.Program
	pkgs    map[string]*ssa.Package // by short name (db, sql, root, driver)
	harness map[string]*HarnessSpec
	overlay map[string][]byte
	repo    string
	verif   string
}

type HarnessSpec struct {
	Name     string
	Pkg      string // short
	Prop     string
	Tier     string // "" (both) or "thorough"
	Unwind   int
	Steps    int
	Paths    int
	Timeout  int
	MaxAlloc int
	Wall     int
	Merge    []string
	NoMerge  bool
	NoIfConv bool
	Shards   int
	shard    int
	Witness  int
	Bounds   string
	Reach    []string
	fn       *ssa.Function
}

func overlayFiles(repo, verif string) (map[string][]byte, map[string]string, error) {
	ov := map[string][]byte{}
	paths := map[string]string{}
	for short, dir := range pkgDirs {
		files, _ := filepath.Glob(filepath.Join(verif, "harness", short, "*.go"))
		for _, f := range files {
			b, err := os.ReadFile(f)
			if err != nil {
				return nil, nil, err
			}
			dst := filepath.Join(repo, dir, filepath.Base(f))
			ov[dst] = b
			paths[dst] = f
		}
	}
	return ov, paths, nil
}

func loadProgram(repo, verif string) (*Program, error) {
	ov, _, err := overlayFiles(repo, verif)
	if err != nil {
		return nil, err
	}
	loadOv := map[string][]byte{}
	for k, v := range ov {
		if !strings.HasSuffix(k, "_test.go") {
			loadOv[k] = v
		}
	}
	cfg := &packages.Config{
		Mode:       packages.LoadAllSyntax,
		Dir:        repo,
		BuildFlags: []string{"-tags=verif"},
		Overlay:    loadOv,
		Env:        append(os.Environ(), "GOFLAGS=-mod=mod", "GOPROXY=off", "GOSUMDB=off", "GOTOOLCHAIN=local"),
	}
	pkgs, err := packages.Load(cfg, "./...")
	if err != nil {
		return nil, err
	}
	nerr := 0
	packages.Visit(pkgs, nil, func(p *packages.Package) {
		for _, e := range p.Errors {
			fmt.Fprintln(os.Stderr, "load error:", e)
			nerr++
		}
	})
	if nerr > 0 {
		return nil, fmt.Errorf("%d package load errors", nerr)
	}
	prog, spkgs := ssautil.AllPackages(pkgs, ssa.InstantiateGenerics)
	prog.Build()
	P := &Program{prog: prog, pkgs: map[string]*ssa.Package{}, harness: map[string]*HarnessSpec{}, overlay: ov, repo: repo, verif: verif}
	for i, p := range pkgs {
		short := ""
		switch p.PkgPath {
		case modPath:
			short = "root"
		case modPath + "/db":
			short = "db"
		case modPath + "/sql":
			short = "sql"
		case modPath + "/driver":
			short = "driver"
		}
		if short == "" {
			continue
		}
		P.pkgs[short] = spkgs[i]
		for _, f := range p.Syntax {
			for _, d := range f.Decls {
				fd, ok := d.(*ast.FuncDecl)
				if !ok || fd.Recv != nil || !strings.HasPrefix(fd.Name.Name, "VH_") {
					continue
				}
				h := &HarnessSpec{Name: fd.Name.Name, Pkg: short}
				parts := strings.Split(fd.Name.Name, "_")
				if len(parts) >= 2 {
					h.Prop = parts[1]
				}
				if fd.Doc != nil {
					for _, c := range fd.Doc.List {
						t := strings.TrimSpace(strings.TrimPrefix(c.Text, "//"))
						if !strings.HasPrefix(t, "verif:") {
							continue
						}
						kv := strings.SplitN(strings.TrimPrefix(t, "verif:"), " ", 2)
						arg := ""
						if len(kv) > 1 {
							arg = strings.TrimSpace(kv[1])
						}
						switch kv[0] {
						case "prop":
							h.Prop = arg
						case "tier":
							h.Tier = arg
						case "unwind":
							h.Unwind, _ = strconv.Atoi(arg)
						case "steps":
							h.Steps, _ = strconv.Atoi(arg)
						case "paths":
							h.Paths, _ = strconv.Atoi(arg)
						case "timeout":
							h.Timeout, _ = strconv.Atoi(arg)
						case "wall":
							h.Wall, _ = strconv.Atoi(arg)
						case "maxalloc":
							h.MaxAlloc, _ = strconv.Atoi(arg)
						case "merge":
							for _, m := range strings.Split(arg, ",") {
								h.Merge = append(h.Merge, strings.TrimSpace(m))
							}
						case "nomerge":
							h.NoMerge = true
						case "noifconv":
							h.NoIfConv = true
						case "witnesses":
							h.Witness, _ = strconv.Atoi(arg)
						case "shards":
							h.Shards, _ = strconv.Atoi(arg)
						case "bounds":
							h.Bounds = arg
						}
					}
				}
				// reach labels in the body
				ast.Inspect(fd, func(n ast.Node) bool {
					ce, ok := n.(*ast.CallExpr)
					if !ok {
						return true
					}
					id, ok := ce.Fun.(*ast.Ident)
					if sel, ok2 := ce.Fun.(*ast.SelectorExpr); ok2 {
						id, ok = sel.Sel, true
					}
					if ok && strings.EqualFold(id.Name, "verifReach") && len(ce.Args) == 1 {
						if bl, ok := ce.Args[0].(*ast.BasicLit); ok && bl.Kind == token.STRING {
							s, _ := strconv.Unquote(bl.Value)
							h.Reach = append(h.Reach, s)
						}
					}
					return true
				})
				h.fn = spkgs[i].Func(h.Name)
				if h.fn != nil {
					P.harness[h.Name] = h
				}
			}
		}
	}
	return P, nil
}

var defaultMerge = []string{
	"readVarint", "readTwos24", "readTwos48", "parsePayload", "calculateCellInPageBytes",
	"parseTableLeaf", "parseTableInterior", "parseIndexLeaf", "parseIndexInterior",
	"cmpInt64", "cmpFloat64", "unicode/utf8.DecodeRuneInString", "unicode/utf8.DecodeRune",
	"unicode/utf8.RuneLen", "unicode/utf8.ValidString",
}

type HarnessResult struct {
	Name          string      `json:"name"`
	Pkg           string      `json:"pkg"`
	Bounds        string      `json:"bounds,omitempty"`
	Paths         int         `json:"paths"`
	DeadPaths     int         `json:"dead_paths"`
	Forks         int         `json:"forks"`
	Merges        int         `json:"merges"`
	Obligations   int         `json:"obligations"`
	Trivial       int         `json:"obligations_folded"`
	Asserts       int         `json:"asserts_checked"`
	Queries       int         `json:"solver_queries"`
	Sat           int         `json:"sat"`
	Unsat         int         `json:"unsat"`
	Unknown       int         `json:"unknown"`
	MemoHits      int         `json:"memo_hits"`
	SolverS       float64     `json:"solver_s"`
	WallS         float64     `json:"wall_s"`
	Reach         map[string]int `json:"reach"`
	MissingReach  []string    `json:"missing_reach,omitempty"`
	Funcs         []string    `json:"functions_encoded"`
	Violations    []Violation `json:"violations,omitempty"`
	BoundExceeded []string    `json:"bound_exceeded,omitempty"`
	Unsupported   string      `json:"unsupported,omitempty"`
	Inconclusive  []string    `json:"inconclusive,omitempty"`
	Assumes       []string    `json:"assumptions,omitempty"`
	SolverErrors  []string    `json:"solver_errors,omitempty"`
	Unwind        int         `json:"unwind"`
	Witnesses     []Witness   `json:"-"`
	done          bool
	MapRanges     int         `json:"map_ranges"`
	SharedWrites  []string    `json:"shared_writes,omitempty"`
}

// Witness: a model of one completed path, with the reach/observe log the
// executor predicts; replayed natively to validate the translation.
type Witness struct {
	Harness string     `json:"harness"`
	Inputs  []InputVal `json:"inputs"`
	Log     []string   `json:"log"`
}

type RunOpts struct {
	Tier      int
	SolverBin string
	Witnesses int
	FrameCheck bool
	Verbose   bool
}

func newExec(P *Program, h *HarnessSpec, opts RunOpts) (*Exec, error) {
	tt := NewTermTable()
	to := 60000
	if opts.Tier > 0 {
		to = 120000
	}
	if h.Timeout > 0 {
		to = h.Timeout
	}
	sol, err := NewSolver(tt, opts.SolverBin, to)
	if err != nil {
		return nil, err
	}
	ex := &Exec{
		prog: P.prog, tt: tt, sol: sol,
		base: map[int]*Object{}, strCache: map[string]int{}, globals: map[*ssa.Global]int{},
		finfo: map[*ssa.Function]*fnInfo{}, intr: map[string]intrinsic{},
		unwind: 40, maxSteps: 2000000, maxPaths: 200000, mergeSet: map[string]bool{},
		tier: opts.Tier, harness: h.Name, initDone: map[*ssa.Package]bool{}, initAllow: map[string]bool{},
		vioSeen: map[string]bool{}, reach: map[string]int{}, reachModels: map[string][]InputVal{},
		funcs: map[string]bool{}, cuts: map[string]int{}, assumes: map[string]bool{}, maxViolations: 24,
		maxAlloc: 1 << 17, smallBuf: 24, regions: map[*ssa.BasicBlock]regionInfo{},
	}
	ex.noIfConv = h.NoIfConv
	ex.shard, ex.shards = -1, h.Shards
	if h.Shards > 0 {
		ex.shard = h.shard
	}
	ex.started = time.Now()
	ex.wallBudget = 15 * time.Minute
	if opts.Tier > 0 {
		ex.wallBudget = 45 * time.Minute
	}
	if h.Wall > 0 {
		ex.wallBudget = time.Duration(h.Wall) * time.Second
	}
	if h.Unwind > 0 {
		ex.unwind = h.Unwind
	}
	if h.Steps > 0 {
		ex.maxSteps = h.Steps
	}
	if h.Paths > 0 {
		ex.maxPaths = h.Paths
	}
	if h.MaxAlloc > 0 {
		ex.maxAlloc = h.MaxAlloc
	}
	if !h.NoMerge {
		for _, m := range defaultMerge {
			ex.mergeSet[m] = true
		}
	}
	for _, m := range h.Merge {
		ex.mergeSet[m] = true
	}
	for _, p := range []string{modPath, modPath + "/db", modPath + "/sql", modPath + "/driver",
		"unicode/utf8", "unicode", "strconv", "math/bits", "sort", "errors", "io", "strings", "bytes", "encoding/binary", "math", "database/sql/driver", "context", "time"} {
		ex.initAllow[p] = true
	}
	ex.registerIntrinsics()
	ex.registerStubs()
	return ex, nil
}

func runHarness(P *Program, h *HarnessSpec, opts RunOpts) (res *HarnessResult) {
	start := time.Now()
	res = &HarnessResult{Name: h.Name, Pkg: h.Pkg, Bounds: h.Bounds, Reach: map[string]int{}}
	ex, err := newExec(P, h, opts)
	if err != nil {
		res.Unsupported = "solver start: " + err.Error()
		return
	}
	defer ex.sol.Close()
	res.Unwind = ex.unwind
	if os.Getenv("VERIF_TRACE") != "" {
		ex.sol.onSlow = func(sec float64, r SatResult, n int) {
			where := ""
			if ex.cur != nil {
				where = ex.pos(ex.cur)
			}
			fmt.Fprintf(os.Stderr, "[%s] slow query %.1fs %v (%d bytes new) at %s; paths=%d q=%d terms=%d\n", h.Name, sec, r, n, where, ex.paths, ex.sol.Queries, ex.tt.next)
		}
		go func() {
			for !res.done {
				time.Sleep(10 * time.Second)
				if res.done {
					return
				}
				where := ""
				if c := ex.cur; c != nil {
					where = ex.pos(c)
				}
				fmt.Fprintf(os.Stderr, "[%s] t=%.0fs q=%d solver=%.1fs terms=%d forks=%d at %s\n", h.Name, time.Since(start).Seconds(), ex.sol.Queries, ex.sol.Seconds, ex.tt.next, ex.forks, where)
			}
		}()
	}
	finish := func() {
		res.Paths, res.DeadPaths, res.Forks, res.Merges = ex.paths, ex.deadPaths, ex.forks, ex.merges
		res.Obligations, res.Trivial, res.Asserts = ex.obligations, ex.obTrivial, ex.asserts
		res.Queries, res.Sat, res.Unsat, res.Unknown = ex.sol.Queries, ex.sol.NSat, ex.sol.NUnsat, ex.sol.NUnknown
		res.MemoHits, res.SolverS = ex.sol.MemoHits, ex.sol.Seconds
		res.Reach = ex.reach
		for _, r := range h.Reach {
			if ex.reach[r] == 0 {
				res.MissingReach = append(res.MissingReach, r)
			}
		}
		for f := range ex.funcs {
			if strings.Contains(f, modPath) && !strings.Contains(f, "VH_") && !strings.Contains(f, "erif") {
				res.Funcs = append(res.Funcs, strings.ReplaceAll(f, modPath, "sqlittle"))
			}
		}
		sort.Strings(res.Funcs)
		res.Violations = ex.violations
		res.BoundExceeded = dedup(ex.boundExceeded)
		res.Inconclusive = dedup(ex.inconclusive)
		for a := range ex.assumes {
			res.Assumes = append(res.Assumes, a)
		}
		sort.Strings(res.Assumes)
		res.SolverErrors = dedup(ex.sol.errors)
		res.MapRanges = ex.mapRanges
		res.SharedWrites = dedup(ex.sharedWrites)
		res.WallS = time.Since(start).Seconds()
		res.done = true
	}
	defer func() {
		if r := recover(); r != nil {
			where := ""
			if ex.cur != nil {
				where = fmt.Sprintf(" [at %s: %s] stack=%s", ex.pos(ex.cur), ex.cur.String(), strings.Join(tail(ex.callStack, 8), " > "))
			}
			if u, ok := r.(unsupported); ok {
				res.Unsupported = u.msg + where
			} else {
				res.Unsupported = fmt.Sprintf("engine panic: %v%s", r, where)
				if os.Getenv("VERIF_DEBUG") != "" {
					res.Unsupported += "\n" + string(debug.Stack())
				}
			}
			finish()
		}
	}()
	// package initialisers of the four packages
	for _, short := range []string{"sql", "db", "root", "driver"} {
		if p := P.pkgs[short]; p != nil {
			ex.runInit(p)
		}
	}
	if opts.FrameCheck {
		ex.installFrameCheck()
	}
	// obligations met while running package initialisers are not part of the harness
	ex.obligations, ex.obTrivial = 0, 0
	st := &State{ex: ex, base: ex.base, heap: map[int]*Object{}}
	outs := ex.callFunc(st, FuncV{fn: h.fn}, nil, nil)
	for _, o := range outs {
		ex.paths++
		if o.pan != nil {
			// a panic escaping the harness: implicit ones were recorded at their origin
			if !ex.hasViolation() {
				ex.recordViolation(o.st, "panic", "harness", h.Name, "panic escaped harness: "+o.pan.msg)
			}
			continue
		}
		nw := opts.Witnesses
		if h.Witness > 0 {
			nw = h.Witness
		}
		if len(res.Witnesses) < nw {
			w, ok := ex.witnessFor(o.st)
			if os.Getenv("VERIF_DEBUG") != "" {
				fmt.Fprintln(os.Stderr, "witness", h.Name, ok, w.Log)
			}
			if ok {
				w.Harness = h.Name
				res.Witnesses = append(res.Witnesses, w)
			}
		}
	}
	finish()
	return
}

func (ex *Exec) hasViolation() bool { return len(ex.violations) > 0 }

func dedup(in []string) []string {
	seen := map[string]bool{}
	var out []string
	for _, s := range in {
		if !seen[s] {
			seen[s] = true
			out = append(out, s)
		}
	}
	return out
}

// runProperty runs all harnesses of a property for a tier in parallel.
func runMany(P *Program, hs0 []*HarnessSpec, opts RunOpts, workers int) []*HarnessResult {
	// expand sharded harnesses into one task per shard
	var hs []*HarnessSpec
	owner := []int{}
	for i, h := range hs0 {
		if h.Shards > 1 {
			for k := 0; k < h.Shards; k++ {
				c := *h
				c.shard = k
				hs = append(hs, &c)
				owner = append(owner, i)
			}
		} else {
			hs = append(hs, h)
			owner = append(owner, i)
		}
	}
	sub := runManyFlat(P, hs, opts, workers)
	out := make([]*HarnessResult, len(hs0))
	for j, r := range sub {
		i := owner[j]
		if out[i] == nil {
			out[i] = r
			continue
		}
		out[i].merge(r)
	}
	return out
}

func (a *HarnessResult) merge(b *HarnessResult) {
	a.Paths += b.Paths
	a.DeadPaths += b.DeadPaths
	a.Forks += b.Forks
	a.Merges += b.Merges
	a.Obligations += b.Obligations
	a.Trivial += b.Trivial
	a.Asserts += b.Asserts
	a.Queries += b.Queries
	a.Sat += b.Sat
	a.Unsat += b.Unsat
	a.Unknown += b.Unknown
	a.MemoHits += b.MemoHits
	a.SolverS += b.SolverS
	if b.WallS > a.WallS {
		a.WallS = b.WallS
	}
	for k, v := range b.Reach {
		a.Reach[k] += v
	}
	var miss []string
	for _, m := range a.MissingReach {
		if b.Reach[m] == 0 && a.Reach[m] == 0 {
			miss = append(miss, m)
		}
	}
	a.MissingReach = miss
	a.Funcs = dedup(append(a.Funcs, b.Funcs...))
	sort.Strings(a.Funcs)
	a.Violations = append(a.Violations, b.Violations...)
	a.BoundExceeded = dedup(append(a.BoundExceeded, b.BoundExceeded...))
	if a.Unsupported == "" {
		a.Unsupported = b.Unsupported
	}
	a.Inconclusive = dedup(append(a.Inconclusive, b.Inconclusive...))
	a.Assumes = dedup(append(a.Assumes, b.Assumes...))
	a.SolverErrors = dedup(append(a.SolverErrors, b.SolverErrors...))
	a.Witnesses = append(a.Witnesses, b.Witnesses...)
	a.MapRanges += b.MapRanges
	a.SharedWrites = dedup(append(a.SharedWrites, b.SharedWrites...))
}

func runManyFlat(P *Program, hs []*HarnessSpec, opts RunOpts, workers int) []*HarnessResult {
	res := make([]*HarnessResult, len(hs))
	var wg sync.WaitGroup
	sem := make(chan struct{}, workers)
	for i, h := range hs {
		wg.Add(1)
		go func(i int, h *HarnessSpec) {
			defer wg.Done()
			sem <- struct{}{}
			defer func() { <-sem }()
			r := runHarness(P, h, opts)
			res[i] = r
			if opts.Verbose {
				fmt.Fprintf(os.Stderr, "  %-40s paths=%d obl=%d q=%d vio=%d %.1fs %s\n", h.Name, r.Paths, r.Obligations, r.Queries, len(r.Violations), r.WallS, firstLine(r.Unsupported))
			}
		}(i, h)
	}
	wg.Wait()
	return res
}

func firstLine(s string) string {
	if i := strings.Index(s, "\n"); i >= 0 {
		return s[:i]
	}
	return s
}

func writeJSON(path string, v interface{}) error {
	b, err := json.MarshalIndent(v, "", " ")
	if err != nil {
		return err
	}
	os.MkdirAll(filepath.Dir(path), 0o755)
	return os.WriteFile(path, append(b, '\n'), 0o644)
}

// witnessFor produces a model of a completed path plus the log the executor
// predicts for it (observed terms evaluated under the model).
func (ex *Exec) witnessFor(st *State) (Witness, bool) {
	// pin the inputs first, then evaluate observations under those values
	r, in := ex.modelFor(st)
	if r != Sat {
		return Witness{}, false
	}
	log := append([]string(nil), st.log...)
	if len(st.obs) > 0 {
		// constrain inputs to the model and ask for the observed terms
		conj := append([]*Term(nil), st.pc...)
		vi := 0
		for _, inp := range st.inputs {
			switch inp.kind {
			case "choice", "stubchoice":
				vi++
			case "bytes":
				b := in[vi].B
				for k, t := range inp.bs {
					var v uint64
					fmt.Sscanf(b[2*k:2*k+2], "%02x", &v)
					conj = append(conj, ex.tt.Eq(t, ex.tt.BV(v, 8)))
				}
				vi++
			default:
				if inp.t.kind == KBool {
					conj = append(conj, ex.tt.Eq(inp.t, ex.tt.Bool(in[vi].V != 0)))
				} else {
					conj = append(conj, ex.tt.Eq(inp.t, ex.tt.BV(in[vi].V, inp.t.w)))
				}
				vi++
			}
		}
		r2, vals := ex.sol.Check(conj, st.obs)
		if r2 != Sat {
			return Witness{}, false
		}
		for i, l := range log {
			var k int
			if n, _ := fmt.Sscanf(l, "obs#%d", &k); n == 1 {
				log[i] = fmt.Sprintf("obs:%d", sext(vals[k], st.obs[k].w))
			}
		}
	}
	return Witness{Inputs: in, Log: log}, true
}

func tail(s []string, n int) []string {
	if len(s) > n {
		return s[len(s)-n:]
	}
	return s
}

// hasProp: a harness may serve several properties (//verif:prop C02,C03).
func (h *HarnessSpec) hasProp(p string) bool {
	for _, x := range strings.Split(h.Prop, ",") {
		if strings.TrimSpace(x) == p {
			return true
		}
	}
	return false
}
