package main

// Concrete evaluation of terms under a solver model. Every state carries the
// last model known to satisfy its path condition; a branch side that the
// model already satisfies is feasible without a solver call (counterexample
// caching). Anything the evaluator cannot decide falls back to the solver.

import (
	"math"
)

type Model struct {
	arrs  map[*Term]bool
	vals  map[*Term]uint64 // variables and select(array, const) terms
	cache map[*Term]evalRes
}

type evalRes struct {
	v  uint64
	ok bool
}

func newModel() *Model {
	return &Model{vals: map[*Term]uint64{}, cache: map[*Term]evalRes{}, arrs: map[*Term]bool{}}
}

func (m *Model) eval(tt *TermTable, t *Term) (uint64, bool) {
	if t.op == OConst {
		return t.c, true
	}
	if r, ok := m.cache[t]; ok {
		return r.v, r.ok
	}
	v, ok := m.eval1(tt, t)
	m.cache[t] = evalRes{v, ok}
	return v, ok
}

func (m *Model) eval1(tt *TermTable, t *Term) (uint64, bool) {
	switch t.op {
	case OVar:
		if t.kind == KArr {
			return 0, false
		}
		if v, ok := m.vals[t]; ok {
			return v, true
		}
		// variable created after the model was taken: unconstrained so far
		return 0, true
	case OSelect:
		idx, ok := m.eval(tt, t.a[1])
		if !ok {
			return 0, false
		}
		key := tt.Select(t.a[0], tt.BV(idx, 32))
		if v, ok := m.vals[key]; ok {
			return v, true
		}
		if !m.arrs[t.a[0]] {
			// buffer created after the model was taken: unconstrained so far
			return 0, true
		}
		return 0, false
	case OUF:
		return 0, false
	case OIte:
		c, ok := m.eval(tt, t.a[0])
		if !ok {
			return 0, false
		}
		if c != 0 {
			return m.eval(tt, t.a[1])
		}
		return m.eval(tt, t.a[2])
	case OBAnd:
		a, oka := m.eval(tt, t.a[0])
		if oka && a == 0 {
			return 0, true
		}
		b, okb := m.eval(tt, t.a[1])
		if okb && b == 0 {
			return 0, true
		}
		return 1, oka && okb
	case OBOr:
		a, oka := m.eval(tt, t.a[0])
		if oka && a != 0 {
			return 1, true
		}
		b, okb := m.eval(tt, t.a[1])
		if okb && b != 0 {
			return 1, true
		}
		return 0, oka && okb
	}
	var av [3]uint64
	for i, a := range t.a {
		v, ok := m.eval(tt, a)
		if !ok {
			return 0, false
		}
		if i < 3 {
			av[i] = v
		}
	}
	w := t.w
	mk := mask(w)
	b2u := func(b bool) uint64 {
		if b {
			return 1
		}
		return 0
	}
	aw := 0
	if len(t.a) > 0 {
		aw = t.a[0].w
	}
	switch t.op {
	case OAdd:
		return (av[0] + av[1]) & mk, true
	case OSub:
		return (av[0] - av[1]) & mk, true
	case OMul:
		return (av[0] * av[1]) & mk, true
	case OUDiv:
		if av[1] == 0 {
			return mk, true
		}
		return av[0] / av[1], true
	case OURem:
		if av[1] == 0 {
			return av[0], true
		}
		return av[0] % av[1], true
	case OSDiv:
		x, y := sext(av[0], w), sext(av[1], w)
		if y == 0 {
			if x >= 0 {
				return mk, true
			}
			return 1, true
		}
		if y == -1 {
			return uint64(-x) & mk, true
		}
		return uint64(x/y) & mk, true
	case OSRem:
		x, y := sext(av[0], w), sext(av[1], w)
		if y == 0 {
			return av[0], true
		}
		if y == -1 {
			return 0, true
		}
		return uint64(x%y) & mk, true
	case OAnd:
		return av[0] & av[1], true
	case OOr:
		return av[0] | av[1], true
	case OXor:
		return av[0] ^ av[1], true
	case ONot:
		return ^av[0] & mk, true
	case ONeg:
		return (-av[0]) & mk, true
	case OShl:
		if av[1] >= uint64(w) {
			return 0, true
		}
		return (av[0] << av[1]) & mk, true
	case OLShr:
		if av[1] >= uint64(w) {
			return 0, true
		}
		return av[0] >> av[1], true
	case OAShr:
		s := av[1]
		if s >= uint64(w) {
			s = uint64(w) - 1
		}
		return uint64(sext(av[0], w)>>s) & mk, true
	case OExtract:
		lo := t.c & 0xff
		return (av[0] >> lo) & mk, true
	case OZExt:
		return av[0], true
	case OSExt:
		return uint64(sext(av[0], aw)) & mk, true
	case OEq:
		if t.a[0].kind == KFP || t.a[0].kind == KF32 {
			return 0, false
		}
		return b2u(av[0] == av[1]), true
	case OUlt:
		return b2u(av[0] < av[1]), true
	case OUle:
		return b2u(av[0] <= av[1]), true
	case OSlt:
		return b2u(sext(av[0], aw) < sext(av[1], aw)), true
	case OSle:
		return b2u(sext(av[0], aw) <= sext(av[1], aw)), true
	case OBNot:
		return b2u(av[0] == 0), true
	}
	// floating point (float64 only)
	if len(t.a) > 0 && t.a[0].kind == KF32 || t.kind == KF32 {
		return 0, false
	}
	f := func(i int) float64 { return math.Float64frombits(av[i]) }
	fr := func(x float64) (uint64, bool) {
		if math.IsNaN(x) {
			return 0, false
		}
		return math.Float64bits(x), true
	}
	switch t.op {
	case OFEq:
		return b2u(f(0) == f(1)), true
	case OFLt:
		return b2u(f(0) < f(1)), true
	case OFLe:
		return b2u(f(0) <= f(1)), true
	case OFAdd:
		return fr(f(0) + f(1))
	case OFSub:
		return fr(f(0) - f(1))
	case OFMul:
		return fr(f(0) * f(1))
	case OFDiv:
		return fr(f(0) / f(1))
	case OFNeg:
		return math.Float64bits(-f(0)), true
	case OFIsNaN:
		return b2u(math.IsNaN(f(0))), true
	case OFFromBits:
		return av[0], true
	case OFFromSBV:
		return math.Float64bits(float64(sext(av[0], aw))), true
	case OFFromUBV:
		return math.Float64bits(float64(av[0])), true
	case OFToSBV:
		x := f(0)
		if math.IsNaN(x) || x <= -9.3e18 || x >= 9.2e18 || w != 64 {
			return 0, false
		}
		return uint64(int64(x)), true
	}
	return 0, false
}

// freshAux creates a solver variable that is not a harness input (runtime
// capacity choices, float bit patterns); named by position on the path.
func (ex *Exec) freshAux(st *State, prefix string, k Kind, w int) *Term {
	st.nfresh++
	t := ex.tt.Var(prefix+"#"+itoa(st.nfresh), k, w)
	st.aux = append(st.aux, t)
	return t
}

func itoa(n int) string {
	if n == 0 {
		return "0"
	}
	var b []byte
	for n > 0 {
		b = append([]byte{byte('0' + n%10)}, b...)
		n /= 10
	}
	return string(b)
}
