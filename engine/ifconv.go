package main

// If-conversion: a conditional whose two arms are small, side-effect-free
// (apart from stores, which are made conditional) regions re-joining at one
// block is evaluated as data flow (ite terms) instead of forking the path.
// This is what keeps `a && b || c`, `if x { flag = false }` and similar code
// from multiplying paths. Purely an exploration strategy: the terms built are
// exactly the values either path would have computed.

import (
	"go/token"
	"go/types"

	"golang.org/x/tools/go/ssa"
)

type regionInfo struct {
	ok   bool
	join *ssa.BasicBlock
}

const maxRegionBlocks = 12
const maxRegionInstrs = 80

// specSafe: can this instruction be evaluated speculatively (no fork, no
// obligation that needs the solver)? Dynamic conditions are re-checked at run time.
func specSafe(in ssa.Instruction) bool {
	switch x := in.(type) {
	case *ssa.DebugRef:
		return true
	case *ssa.BinOp:
		switch x.Op {
		case token.QUO, token.REM:
			// safe only for constant non-zero divisors (checked dynamically)
			return true
		case token.SHL, token.SHR:
			return !isSigned(x.Y.Type()) || isConstVal(x.Y)
		case token.ADD:
			return !isStringT(x.X.Type()) // string concat allocates
		}
		return true
	case *ssa.UnOp:
		return x.Op != token.ARROW
	case *ssa.Convert:
		// numeric conversions only
		_, fb := x.X.Type().Underlying().(*types.Basic)
		tb, tb2 := x.Type().Underlying().(*types.Basic)
		if !fb || !tb2 {
			return false
		}
		if tb.Info()&types.IsString != 0 {
			return isStringT(x.X.Type())
		}
		return true
	case *ssa.ChangeType, *ssa.ChangeInterface, *ssa.MakeInterface, *ssa.Extract, *ssa.Field, *ssa.FieldAddr, *ssa.Store:
		return true
	case *ssa.IndexAddr, *ssa.Index:
		return true // dynamic: constant in-range index only
	case *ssa.Jump, *ssa.If:
		return true
	case *ssa.Call:
		// calls of builtins len/cap only
		if b, ok := x.Call.Value.(*ssa.Builtin); ok && (b.Name() == "len" || b.Name() == "cap") {
			return true
		}
		return false
	}
	return false
}

func isConstVal(v ssa.Value) bool { _, ok := v.(*ssa.Const); return ok }

// findRegion checks that both arms of the If form an acyclic region of
// spec-safe blocks, each with all predecessors inside the region, joining at
// a single block.
func (ex *Exec) findRegion(ifb *ssa.BasicBlock) regionInfo {
	if ri, ok := ex.regions[ifb]; ok {
		return ri
	}
	ri := regionInfo{}
	defer func() { ex.regions[ifb] = ri }()
	// collect blocks reachable from the two successors until a candidate join
	// the join is the immediate post-dominator; approximate: BFS, a block is a
	// join candidate if it is reached with a predecessor outside {ifb}∪region
	// or contains non-safe instructions.
	region := map[*ssa.BasicBlock]bool{}
	var order []*ssa.BasicBlock
	var join *ssa.BasicBlock
	instrs := 0
	var visit func(b *ssa.BasicBlock) bool
	isMember := func(b *ssa.BasicBlock) bool {
		// member blocks: every predecessor is ifb or a member visited earlier;
		// all instructions safe; no phis
		if b == ifb {
			return false
		}
		for _, in := range b.Instrs {
			if _, isPhi := in.(*ssa.Phi); isPhi {
				return false
			}
			if !specSafe(in) {
				return false
			}
		}
		switch b.Instrs[len(b.Instrs)-1].(type) {
		case *ssa.Jump, *ssa.If:
		default:
			return false
		}
		return true
	}
	visit = func(b *ssa.BasicBlock) bool {
		if region[b] {
			return true
		}
		if b == join {
			return true
		}
		member := isMember(b)
		if member {
			for _, p := range b.Preds {
				if p != ifb && !region[p] {
					member = false
				}
			}
		}
		if !member {
			if join == nil {
				join = b
				return true
			}
			return false
		}
		region[b] = true
		order = append(order, b)
		instrs += len(b.Instrs)
		if len(region) > maxRegionBlocks || instrs > maxRegionInstrs {
			return false
		}
		for _, s := range b.Succs {
			if s == ifb {
				return false // loop
			}
			if !visit(s) {
				return false
			}
		}
		return true
	}
	// Two passes: the join may be discovered while exploring the first arm.
	for pass := 0; pass < 2; pass++ {
		for _, s := range ifb.Succs {
			if !visit(s) {
				return ri
			}
		}
	}
	if join == nil || region[join] {
		return ri
	}
	// every member must have all successors in region ∪ {join}
	for b := range region {
		for _, s := range b.Succs {
			if s != join && !region[s] {
				return ri
			}
		}
		for _, p := range b.Preds {
			if p != ifb && !region[p] {
				return ri
			}
		}
	}
	// the join's predecessors coming from outside the region (other than ifb) are fine
	ri.ok = true
	ri.join = join
	return ri
}

type specAbort struct{}

// tryIfConvert evaluates the If at the end of c.block as data flow. Returns
// true when done (c is positioned in the join block after its phis).
func (ex *Exec) tryIfConvert(c *ctx, x *ssa.If, cond *Term) bool {
	if ex.noIfConv || noIfConvFuncs[c.fn.String()] {
		return false
	}
	ri := ex.findRegion(c.block)
	if !ri.ok {
		return false
	}
	tt := ex.tt
	// snapshot for rollback
	snapSt := c.st.clone()
	snapEnv := append([]Value(nil), c.env...)
	type arrival struct {
		from  *ssa.BasicBlock
		guard *Term
	}
	var arrivals []arrival
	ok := func() (ok bool) {
		defer func() {
			if r := recover(); r != nil {
				if _, is := r.(specAbort); is {
					ok = false
					return
				}
				if _, is := r.(unsupported); is {
					ok = false
					return
				}
				panic(r)
			}
		}()
		var run func(b *ssa.BasicBlock, from *ssa.BasicBlock, guard *Term)
		run = func(b *ssa.BasicBlock, from *ssa.BasicBlock, guard *Term) {
			if guard.IsConst() && guard.c == 0 {
				return
			}
			if b == ri.join {
				arrivals = append(arrivals, arrival{from, guard})
				return
			}
			for _, in := range b.Instrs {
				switch y := in.(type) {
				case *ssa.Jump:
					run(b.Succs[0], b, guard)
				case *ssa.If:
					cv := ex.val(c, y.Cond).(*Term)
					run(b.Succs[0], b, tt.BAnd(guard, cv))
					run(b.Succs[1], b, tt.BAnd(guard, tt.BNot(cv)))
				default:
					ex.specInstr(c, in, guard)
				}
			}
		}
		run(c.block.Succs[0], c.block, cond)
		run(c.block.Succs[1], c.block, tt.BNot(cond))
		return true
	}()
	if !ok || len(arrivals) == 0 {
		// roll back
		*c.st = *snapSt
		copy(c.env, snapEnv)
		return false
	}
	// phis of the join
	j := ri.join
	var phis []*ssa.Phi
	var vals []Value
	for _, in := range j.Instrs {
		p, isPhi := in.(*ssa.Phi)
		if !isPhi {
			break
		}
		var acc Value
		for i := len(arrivals) - 1; i >= 0; i-- {
			a := arrivals[i]
			idx := -1
			for k, pr := range j.Preds {
				if pr == a.from {
					idx = k
					break
				}
			}
			if idx < 0 {
				*c.st = *snapSt
				copy(c.env, snapEnv)
				return false
			}
			v := ex.val(c, p.Edges[idx])
			if acc == nil {
				acc = v
				continue
			}
			m, mok := ex.mergeValue(a.guard, v, acc)
			if !mok {
				*c.st = *snapSt
				copy(c.env, snapEnv)
				return false
			}
			acc = m
		}
		phis = append(phis, p)
		vals = append(vals, acc)
	}
	for i, p := range phis {
		ex.set(c, p, vals[i])
	}
	c.prev = arrivals[0].from
	c.block = j
	c.pc = len(phis)
	ex.ifConverted++
	return true
}

// specInstr evaluates one region instruction under guard (stores become
// conditional). Panics with specAbort when a dynamic safety condition fails.
func (ex *Exec) specInstr(c *ctx, in ssa.Instruction, guard *Term) {
	tt := ex.tt
	st := c.st
	switch x := in.(type) {
	case *ssa.DebugRef:
	case *ssa.BinOp:
		xv, yv := ex.val(c, x.X), ex.val(c, x.Y)
		if x.Op == token.QUO || x.Op == token.REM {
			y, isT := yv.(*Term)
			if !isT || (y.kind == KBV && !(y.IsConst() && y.c != 0)) {
				panic(specAbort{})
			}
		}
		if x.Op == token.SHL || x.Op == token.SHR {
			if y, isT := yv.(*Term); isT && isSigned(x.Y.Type()) && !(y.IsConst() && sext(y.c, y.w) >= 0) {
				panic(specAbort{})
			}
		}
		if _, isS := xv.(SliceV); isS && x.Op == token.ADD {
			panic(specAbort{})
		}
		nobl := ex.obligations
		v, ok := ex.binop(c, x, x.Op, xv, yv, x.X.Type(), x.Y.Type())
		if !ok || ex.obligations != nobl && false {
			panic(specAbort{})
		}
		ex.set(c, x, v)
	case *ssa.UnOp:
		switch x.Op {
		case token.MUL:
			p := ex.val(c, x.X).(Ptr)
			if p.obj == 0 {
				panic(specAbort{})
			}
			for _, pe := range p.path {
				if pe.idx != nil && !pe.idx.IsConst() {
					panic(specAbort{})
				}
			}
			ex.set(c, x, ex.load(st, p))
		case token.SUB:
			v := ex.val(c, x.X).(*Term)
			if v.kind == KFP || v.kind == KF32 {
				ex.set(c, x, tt.FNeg(v))
			} else {
				ex.set(c, x, tt.Neg(v))
			}
		case token.NOT:
			ex.set(c, x, tt.BNot(ex.val(c, x.X).(*Term)))
		case token.XOR:
			ex.set(c, x, tt.Not(ex.val(c, x.X).(*Term)))
		default:
			panic(specAbort{})
		}
	case *ssa.Convert:
		v := ex.val(c, x.X)
		if t, isT := v.(*Term); isT {
			if tb, ok := x.Type().Underlying().(*types.Basic); ok && tb.Info()&types.IsString != 0 && t.kind == KBV {
				panic(specAbort{})
			}
		}
		alts := ex.convert(c, x, v, x.X.Type(), x.Type())
		if len(alts) != 1 {
			panic(specAbort{})
		}
		ex.set(c, x, alts[0].v)
	case *ssa.ChangeType:
		ex.set(c, x, ex.val(c, x.X))
	case *ssa.ChangeInterface:
		ex.set(c, x, ex.val(c, x.X))
	case *ssa.MakeInterface:
		ex.set(c, x, IfaceV{typ: x.X.Type(), val: ex.val(c, x.X)})
	case *ssa.Extract:
		ex.set(c, x, ex.val(c, x.Tuple).(TupleV)[x.Index])
	case *ssa.Field:
		ex.set(c, x, ex.val(c, x.X).(*StructV).f[x.Field])
	case *ssa.FieldAddr:
		p := ex.val(c, x.X).(Ptr)
		if p.obj == 0 {
			panic(specAbort{})
		}
		np := append(append([]PE(nil), p.path...), PE{field: x.Field})
		ex.set(c, x, Ptr{p.obj, np})
	case *ssa.Index:
		idx := ex.toInt64(ex.val(c, x.Index).(*Term), x.Index.Type())
		if !idx.IsConst() {
			panic(specAbort{})
		}
		switch xv := ex.val(c, x.X).(type) {
		case *ArrayV:
			if idx.c >= uint64(len(xv.e)) {
				panic(specAbort{})
			}
			ex.set(c, x, xv.e[idx.c])
		case SliceV:
			if !xv.len.IsConst() || idx.c >= xv.len.c {
				panic(specAbort{})
			}
			ex.set(c, x, ex.elemAt(st, xv, idx))
		default:
			panic(specAbort{})
		}
	case *ssa.IndexAddr:
		idx := ex.toInt64(ex.val(c, x.Index).(*Term), x.Index.Type())
		if !idx.IsConst() {
			panic(specAbort{})
		}
		switch xv := ex.val(c, x.X).(type) {
		case SliceV:
			if !xv.len.IsConst() || idx.c >= xv.len.c {
				panic(specAbort{})
			}
			ex.set(c, x, elemPtr(xv, tt.Add(xv.off, idx)))
		case Ptr:
			if xv.obj == 0 {
				panic(specAbort{})
			}
			n := x.X.Type().Underlying().(*types.Pointer).Elem().Underlying().(*types.Array).Len()
			if idx.c >= uint64(n) {
				panic(specAbort{})
			}
			np := append(append([]PE(nil), xv.path...), PE{idx: idx})
			ex.set(c, x, Ptr{xv.obj, np})
		default:
			panic(specAbort{})
		}
	case *ssa.Store:
		p := ex.val(c, x.Addr).(Ptr)
		if p.obj == 0 {
			panic(specAbort{})
		}
		nv := ex.val(c, x.Val)
		old := ex.load(st, p)
		m, ok := ex.mergeValue(guard, nv, old)
		if !ok {
			panic(specAbort{})
		}
		ex.store(st, p, m)
	case *ssa.Call:
		b := x.Call.Value.(*ssa.Builtin)
		var args []Value
		for _, a := range x.Call.Args {
			args = append(args, ex.val(c, a))
		}
		outs := ex.callBuiltin(st, FuncV{builtin: "builtin:" + b.Name()}, args, &x.Call)
		if len(outs) != 1 {
			panic(specAbort{})
		}
		ex.set(c, x, outs[0].ret)
	default:
		panic(specAbort{})
	}
}

// functions whose branches steer indices: keeping them as forks keeps the
// indices concrete
var noIfConvFuncs = map[string]bool{"sort.Search": true}
