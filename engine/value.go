package main

// Runtime values of the symbolic executor and the copy-on-write heap.

import (
	"fmt"
	"go/types"

	"golang.org/x/tools/go/ssa"
)

type Value interface{}

// PE is one step of a pointer path: a struct field (idx == nil) or an array
// element (idx != nil, possibly symbolic).
type PE struct {
	field int
	idx   *Term
}

type Ptr struct {
	obj  int // 0 = nil
	path []PE
}

type SliceV struct {
	obj           int  // 0 = nil slice / empty string constant without backing
	pre           []PE // path from the object's value to the backing array
	off, len, cap *Term
	str           bool
}

type IfaceV struct {
	typ types.Type // nil = nil interface
	val Value
}

type StructV struct{ f []Value }

type ArrayV struct {
	e        []Value
	// fn, when set, gives element i as a closed-form term (e[k] == fn(k) for
	// all k): symbolic-index reads use it instead of an ite chain over e.
	fn func(i *Term) *Term
}

type FuncV struct {
	fn      *ssa.Function
	env     []Value // free variables (closure) — or receiver for bound builtin
	builtin string  // intrinsic name when fn has no body to run
}

type MapV struct{ obj int }
type ChanV struct{ obj int }
type TupleV []Value

// RangeIter is the value of an ssa.Range instruction.
type RangeIter struct {
	isStr bool
	str   SliceV
	posT  *Term
	mp    int // map object
	pos   int
	keys  []Value // snapshot of map keys
}

type ChanData struct {
	closed bool
	buf    []Value
	cap    int
	// happens-before bookkeeping (threads.go): the producer release event each
	// queued value / the close stands for; 0 = not sent by the producer
	rel       []int
	closedRel int
}

// Thread is a suspended goroutine (see threads.go).
type Thread struct {
	id int
}

type MapEntry struct {
	k, v Value
}
type MapData struct {
	ents []MapEntry
}

// ownerTok identifies the single state allowed to mutate an object in place.
// Cloning a state gives BOTH copies fresh tokens, so objects shared between
// them are copied on the next write by either.
type ownerTok struct{ _ int }

type Object struct {
	typ   types.Type
	val   Value
	owner *ownerTok
	name  string
}

type Input struct {
	kind string // int64,byte,bool,float64,bytes,choice,int
	t    *Term  // variable (nil for choice)
	n    int    // choice value / bytes length
	bs   []*Term
}

type State struct {
	ex      *Exec
	base    map[int]*Object // immutable, shared
	heap    map[int]*Object
	nextID  int
	pc      []*Term
	inputs  []Input
	steps   int
	depth   int
	log     []string // reach log
	cuts    []string
	dead    bool
	ghost   map[string]int
	curPanic *PanicInfo
	initMode bool
	threads  []*Thread
	obs      []*Term
	tok      *ownerTok
	model    *Model
	aux      []*Term
	nfresh   int
	files    map[string]ghostFile
	filePos  map[int]*Term
	fileName map[int]string
	locks    map[string]lockTable
	protected map[int]bool
	script   threadScript
	ctxChans map[int]bool // channels returned by ctx.Done()
	wgCount  map[int]int
	assumedDone map[int]bool
	hb       *hbState // happens-before bookkeeping once a goroutine was sequentialised
}

func (st *State) clone() *State {
	n := &State{ex: st.ex, base: st.base, nextID: st.nextID, steps: st.steps, depth: st.depth}
	st.tok = &ownerTok{}
	n.tok = &ownerTok{}
	n.heap = make(map[int]*Object, len(st.heap)+8)
	for k, v := range st.heap {
		n.heap[k] = v
	}
	n.pc = append([]*Term(nil), st.pc...)
	n.inputs = append([]Input(nil), st.inputs...)
	n.log = append([]string(nil), st.log...)
	n.cuts = append([]string(nil), st.cuts...)
	n.initMode = st.initMode
	if st.curPanic != nil {
		p := *st.curPanic
		n.curPanic = &p
	}
	n.threads = append([]*Thread(nil), st.threads...)
	n.obs = append([]*Term(nil), st.obs...)
	n.model = st.model
	n.aux = append([]*Term(nil), st.aux...)
	n.nfresh = st.nfresh
	n.files, n.filePos, n.fileName = st.files, st.filePos, st.fileName
	n.locks = st.locks
	n.protected = st.protected
	n.script = st.script
	n.ctxChans = st.ctxChans
	n.wgCount = st.wgCount
	n.assumedDone = st.assumedDone
	n.hb = st.hb
	if st.ghost != nil {
		n.ghost = map[string]int{}
		for k, v := range st.ghost {
			n.ghost[k] = v
		}
	}
	return n
}

func (st *State) obj(id int) *Object {
	if o, ok := st.heap[id]; ok {
		return o
	}
	if o, ok := st.base[id]; ok {
		return o
	}
	panic(fmt.Sprintf("dangling object %d", id))
}

func (st *State) mut(id int) *Object {
	o := st.obj(id)
	if st.tok == nil {
		st.tok = &ownerTok{}
	}
	if o.owner == st.tok {
		return o
	}
	c := *o
	c.owner = st.tok
	st.heap[id] = &c
	return &c
}

func (st *State) alloc(typ types.Type, val Value, name string) int {
	var id int
	if st.initMode {
		st.ex.baseNext--
		id = st.ex.baseNext
	} else {
		st.nextID++
		id = st.nextID
	}
	if st.tok == nil {
		st.tok = &ownerTok{}
	}
	st.heap[id] = &Object{typ: typ, val: val, owner: st.tok, name: name}
	return id
}

// ---- zero values ----

func (ex *Exec) zero(t types.Type) Value {
	tt := ex.tt
	switch u := t.Underlying().(type) {
	case *types.Basic:
		switch {
		case u.Info()&types.IsBoolean != 0:
			return tt.False
		case u.Info()&types.IsInteger != 0:
			return tt.BV(0, intWidth(u))
		case u.Kind() == types.Float64 || u.Kind() == types.UntypedFloat:
			return tt.FP(0)
		case u.Kind() == types.Float32:
			return tt.F32(0)
		case u.Info()&types.IsString != 0:
			return ex.emptyStr()
		case u.Kind() == types.UnsafePointer:
			return Ptr{}
		case u.Kind() == types.UntypedNil:
			return nil
		}
	case *types.Pointer:
		return Ptr{}
	case *types.Slice:
		z := tt.BV(0, 64)
		return SliceV{off: z, len: z, cap: z}
	case *types.Interface:
		return IfaceV{}
	case *types.Struct:
		f := make([]Value, u.NumFields())
		for i := range f {
			f[i] = ex.zero(u.Field(i).Type())
		}
		return &StructV{f}
	case *types.Array:
		n := int(u.Len())
		e := make([]Value, n)
		if n > 0 {
			z := ex.zero(u.Elem())
			for i := range e {
				e[i] = z
			}
		}
		return &ArrayV{e: e}
	case *types.Signature:
		return FuncV{}
	case *types.Map:
		return MapV{}
	case *types.Chan:
		return ChanV{}
	case *types.Tuple:
		f := make(TupleV, u.Len())
		for i := range f {
			f[i] = ex.zero(u.At(i).Type())
		}
		return f
	}
	panic(fmt.Sprintf("zero: unsupported type %s", t))
}

func intWidth(b *types.Basic) int {
	switch b.Kind() {
	case types.Int8, types.Uint8:
		return 8
	case types.Int16, types.Uint16:
		return 16
	case types.Int32, types.Uint32:
		return 32
	}
	return 64
}

func isSigned(t types.Type) bool {
	b, ok := t.Underlying().(*types.Basic)
	if !ok {
		return false
	}
	return b.Info()&types.IsInteger != 0 && b.Info()&types.IsUnsigned == 0
}

func (ex *Exec) emptyStr() SliceV {
	z := ex.tt.BV(0, 64)
	return SliceV{off: z, len: z, cap: z, str: true}
}

// ---- navigating value trees ----

type unsupported struct{ msg string }

func unsup(f string, a ...interface{}) { panic(unsupported{fmt.Sprintf(f, a...)}) }

// loadPath reads the sub-value of v at path.
func (ex *Exec) loadPath(v Value, path []PE) Value {
	for i, pe := range path {
		if pe.idx == nil {
			v = v.(*StructV).f[pe.field]
			continue
		}
		a := v.(*ArrayV)
		if pe.idx.IsConst() {
			k := int(pe.idx.c)
			if k < 0 || k >= len(a.e) {
				unsup("loadPath: constant index %d out of range %d (missing bounds obligation)", k, len(a.e))
			}
			v = a.e[k]
			continue
		}
		// symbolic index
		rest := path[i+1:]
		return ex.symRead(a, pe.idx, rest)
	}
	return v
}

func (ex *Exec) symRead(a *ArrayV, idx *Term, rest []PE) Value {
	tt := ex.tt
	if a.fn != nil && len(rest) == 0 {
		return a.fn(idx)
	}
	if len(a.e) == 0 {
		unsup("symbolic read of empty array")
	}
	// affine fast path: all elements are select(base, c+k)
	var res Value
	for k := len(a.e) - 1; k >= 0; k-- {
		ek := ex.loadPath(a.e[k], rest)
		if res == nil {
			res = ek
			continue
		}
		c := tt.Eq(idx, tt.BV(uint64(k), idx.w))
		m, ok := ex.mergeValue(c, ek, res)
		if !ok {
			unsup("symbolic index over non-mergeable elements")
		}
		res = m
	}
	return res
}

// storePath returns v with the sub-value at path replaced by nv.
func (ex *Exec) storePath(v Value, path []PE, nv Value) Value {
	if len(path) == 0 {
		return nv
	}
	pe := path[0]
	if pe.idx == nil {
		s := v.(*StructV)
		f := append([]Value(nil), s.f...)
		f[pe.field] = ex.storePath(f[pe.field], path[1:], nv)
		return &StructV{f}
	}
	a := v.(*ArrayV)
	e := append([]Value(nil), a.e...)
	if pe.idx.IsConst() {
		k := int(pe.idx.c)
		if k < 0 || k >= len(e) {
			unsup("storePath: constant index %d out of range %d", k, len(e))
		}
		e[k] = ex.storePath(e[k], path[1:], nv)
		return &ArrayV{e: e}
	}
	for k := range e {
		c := ex.tt.Eq(pe.idx, ex.tt.BV(uint64(k), pe.idx.w))
		upd := ex.storePath(e[k], path[1:], nv)
		m, ok := ex.mergeValue(c, upd, e[k])
		if !ok {
			unsup("symbolic-index store of non-mergeable value")
		}
		e[k] = m
	}
	return &ArrayV{e: e}
}

func (ex *Exec) load(st *State, p Ptr) Value {
	if p.obj == 0 {
		unsup("load through nil pointer (missing obligation)")
	}
	if st.hb != nil {
		ex.hbAccess(st, p, false)
	}
	return ex.loadPath(st.obj(p.obj).val, p.path)
}

func (ex *Exec) store(st *State, p Ptr, v Value) {
	if p.obj == 0 {
		unsup("store through nil pointer (missing obligation)")
	}
	if st.hb != nil {
		ex.hbAccess(st, p, true)
	}
	o := st.mut(p.obj)
	o.val = ex.storePath(o.val, p.path, v)
	if ex.storeHook != nil {
		ex.storeHook(st, p.obj)
	}
}

// mergeValue builds ite(c, a, b) structurally. ok=false when shapes differ.
func (ex *Exec) mergeValue(c *Term, a, b Value) (Value, bool) {
	if c.IsConst() {
		if c.c != 0 {
			return a, true
		}
		return b, true
	}
	switch x := a.(type) {
	case nil:
		if b == nil {
			return nil, true
		}
		return nil, false
	case *Term:
		y, ok := b.(*Term)
		if !ok || x.kind != y.kind || x.w != y.w {
			return nil, false
		}
		return ex.tt.Ite(c, x, y), true
	case Ptr:
		y, ok := b.(Ptr)
		if !ok || x.obj != y.obj || len(x.path) != len(y.path) {
			return nil, false
		}
		var np []PE
		for i := range x.path {
			px, py := x.path[i], y.path[i]
			if (px.idx == nil) != (py.idx == nil) {
				return nil, false
			}
			if px.idx == nil {
				if px.field != py.field {
					return nil, false
				}
				np = append(np, px)
			} else {
				np = append(np, PE{idx: ex.tt.Ite(c, px.idx, py.idx)})
			}
		}
		return Ptr{x.obj, np}, true
	case SliceV:
		y, ok := b.(SliceV)
		if !ok || x.str != y.str {
			return nil, false
		}
		if x.obj != y.obj {
			// allow merging with a nil/empty slice of length 0: not generally sound for nil-ness
			return nil, false
		}
		if !samePath(x.pre, y.pre) {
			return nil, false
		}
		return SliceV{x.obj, x.pre, ex.tt.Ite(c, x.off, y.off), ex.tt.Ite(c, x.len, y.len), ex.tt.Ite(c, x.cap, y.cap), x.str}, true
	case IfaceV:
		y, ok := b.(IfaceV)
		if !ok {
			return nil, false
		}
		if x.typ == nil || y.typ == nil {
			if x.typ == nil && y.typ == nil {
				return x, true
			}
			return nil, false
		}
		if !types.Identical(x.typ, y.typ) {
			return nil, false
		}
		v, ok := ex.mergeValue(c, x.val, y.val)
		if !ok {
			return nil, false
		}
		return IfaceV{x.typ, v}, true
	case *StructV:
		y, ok := b.(*StructV)
		if !ok || len(x.f) != len(y.f) {
			return nil, false
		}
		if x == y {
			return x, true
		}
		f := make([]Value, len(x.f))
		for i := range f {
			v, ok := ex.mergeValue(c, x.f[i], y.f[i])
			if !ok {
				return nil, false
			}
			f[i] = v
		}
		return &StructV{f}, true
	case *ArrayV:
		y, ok := b.(*ArrayV)
		if !ok || len(x.e) != len(y.e) {
			return nil, false
		}
		if x == y {
			return x, true
		}
		e := make([]Value, len(x.e))
		for i := range e {
			v, ok := ex.mergeValue(c, x.e[i], y.e[i])
			if !ok {
				return nil, false
			}
			e[i] = v
		}
		return &ArrayV{e: e}, true
	case TupleV:
		y, ok := b.(TupleV)
		if !ok || len(x) != len(y) {
			return nil, false
		}
		f := make(TupleV, len(x))
		for i := range f {
			v, ok := ex.mergeValue(c, x[i], y[i])
			if !ok {
				return nil, false
			}
			f[i] = v
		}
		return f, true
	case FuncV:
		y, ok := b.(FuncV)
		if !ok || x.fn != y.fn || x.builtin != y.builtin || len(x.env) != len(y.env) {
			return nil, false
		}
		for i := range x.env {
			if !ex.sameValue(x.env[i], y.env[i]) {
				return nil, false
			}
		}
		return x, true
	case MapV:
		y, ok := b.(MapV)
		if !ok || x.obj != y.obj {
			return nil, false
		}
		return x, true
	case ChanV:
		y, ok := b.(ChanV)
		if !ok || x.obj != y.obj {
			return nil, false
		}
		return x, true
	}
	return nil, false
}

// sameValue: syntactic identity (no solver).
func (ex *Exec) sameValue(a, b Value) bool {
	v, ok := ex.mergeValue(ex.tt.Var("$probe", KBool, 0), a, b)
	if !ok {
		return false
	}
	_ = v
	return ex.identical(a, b)
}

func (ex *Exec) identical(a, b Value) bool {
	switch x := a.(type) {
	case nil:
		return b == nil
	case *Term:
		y, ok := b.(*Term)
		return ok && x == y
	case Ptr:
		y, ok := b.(Ptr)
		if !ok || x.obj != y.obj || len(x.path) != len(y.path) {
			return false
		}
		for i := range x.path {
			if x.path[i] != y.path[i] {
				return false
			}
		}
		return true
	case SliceV:
		y, ok := b.(SliceV)
		return ok && x.obj == y.obj && x.off == y.off && x.len == y.len && x.cap == y.cap && x.str == y.str && samePath(x.pre, y.pre)
	case IfaceV:
		y, ok := b.(IfaceV)
		if !ok {
			return false
		}
		if x.typ == nil || y.typ == nil {
			return x.typ == nil && y.typ == nil
		}
		return types.Identical(x.typ, y.typ) && ex.identical(x.val, y.val)
	case *StructV:
		y, ok := b.(*StructV)
		if !ok || len(x.f) != len(y.f) {
			return false
		}
		for i := range x.f {
			if !ex.identical(x.f[i], y.f[i]) {
				return false
			}
		}
		return true
	case *ArrayV:
		y, ok := b.(*ArrayV)
		if !ok || len(x.e) != len(y.e) {
			return false
		}
		if x == y {
			return true
		}
		for i := range x.e {
			if !ex.identical(x.e[i], y.e[i]) {
				return false
			}
		}
		return true
	case TupleV:
		y, ok := b.(TupleV)
		if !ok || len(x) != len(y) {
			return false
		}
		for i := range x {
			if !ex.identical(x[i], y[i]) {
				return false
			}
		}
		return true
	case FuncV:
		y, ok := b.(FuncV)
		if !ok || x.fn != y.fn || x.builtin != y.builtin || len(x.env) != len(y.env) {
			return false
		}
		for i := range x.env {
			if !ex.identical(x.env[i], y.env[i]) {
				return false
			}
		}
		return true
	case MapV:
		y, ok := b.(MapV)
		return ok && x == y
	case ChanV:
		y, ok := b.(ChanV)
		return ok && x == y
	}
	return false
}

func samePath(a, b []PE) bool {
	if len(a) != len(b) {
		return false
	}
	for i := range a {
		if a[i] != b[i] {
			return false
		}
	}
	return true
}

// backing returns the array a slice value views.
func (ex *Exec) backing(st *State, s SliceV) *ArrayV {
	v := st.obj(s.obj).val
	if len(s.pre) > 0 {
		v = ex.loadPath(v, s.pre)
	}
	a, ok := v.(*ArrayV)
	if !ok {
		unsup("slice backing is %T", v)
	}
	return a
}

// elemPtr gives the pointer to backing element idx (absolute index term).
func elemPtr(s SliceV, idx *Term) Ptr {
	p := make([]PE, len(s.pre)+1)
	copy(p, s.pre)
	p[len(s.pre)] = PE{idx: idx}
	return Ptr{s.obj, p}
}

// ---- strings ----

// constStr makes a string value with concrete content. Backing objects for
// constants are cached in the base heap by content.
func (ex *Exec) constStr(st *State, s string) SliceV {
	tt := ex.tt
	if len(s) == 0 {
		return ex.emptyStr()
	}
	e := make([]Value, len(s))
	for i := 0; i < len(s); i++ {
		e[i] = tt.BV(uint64(s[i]), 8)
	}
	id, ok := ex.strCache[s]
	if !ok {
		ex.baseNext--
		id = ex.baseNext
		ex.base[id] = &Object{val: &ArrayV{e: e}, name: "str"}
		ex.strCache[s] = id
	}
	n := tt.BV(uint64(len(s)), 64)
	return SliceV{obj: id, off: tt.BV(0, 64), len: n, cap: n, str: true}
}

// concreteStr returns the Go string if all bytes and the length are constant.
func (ex *Exec) concreteStr(st *State, s SliceV) (string, bool) {
	if !s.len.IsConst() || !s.off.IsConst() {
		return "", false
	}
	n := int(s.len.c)
	if n == 0 {
		return "", true
	}
	a := ex.backing(st, s)
	b := make([]byte, n)
	off := int(s.off.c)
	for i := 0; i < n; i++ {
		t, ok := a.e[off+i].(*Term)
		if !ok || !t.IsConst() {
			return "", false
		}
		b[i] = byte(t.c)
	}
	return string(b), true
}

// elemAt reads element i (term) of a slice/string, no bounds obligation.
func (ex *Exec) elemAt(st *State, s SliceV, i *Term) Value {
	a := ex.backing(st, s)
	idx := ex.tt.Add(s.off, i)
	if idx.IsConst() {
		k := int(idx.c)
		if k < 0 || k >= len(a.e) {
			unsup("elemAt: index %d outside backing array of %d", k, len(a.e))
		}
		return a.e[k]
	}
	return ex.symRead(a, idx, nil)
}
