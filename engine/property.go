package main

import (
	"bytes"
	"encoding/json"
	"fmt"
	"os"
	"os/exec"
	"path/filepath"
	"sort"
	"strings"
	"time"
)

type ReplayFile struct {
	Property string     `json:"property"`
	Harness  string     `json:"harness"`
	Pkg      string     `json:"pkg"`
	Kind     string     `json:"kind"`
	Site     string     `json:"site"`
	Func     string     `json:"func"`
	Msg      string     `json:"msg"`
	Inputs   []InputVal `json:"inputs"`
}

type NativeCase struct {
	Harness string     `json:"harness"`
	Inputs  []InputVal `json:"inputs"`
}

type NativeResult struct {
	Kind   string   // ok | assert | panic | diverged | timeout | missing
	Detail string
	Log    []string
}

const testTemplate = `//go:build verif

package %PKG%

import (
	"encoding/json"
	"fmt"
	"os"
	"strings"
	"testing"
	"time"
	%IMPORT%
)

type verifCase struct {
	Harness string
	Inputs  []%Q%VerifInput
}

func TestVerifReplay(t *testing.T) {
	b, err := os.ReadFile(os.Getenv("VERIF_CASES"))
	if err != nil {
		t.Fatal(err)
	}
	var cases []verifCase
	if err := json.Unmarshal(b, &cases); err != nil {
		t.Fatal(err)
	}
	for i, c := range cases {
		f, ok := verifRegistry[c.Harness]
		if !ok {
			fmt.Printf("VERIF-CASE %d missing -\n", i)
			continue
		}
		%Q%VerifSetVector(c.Inputs)
		done := make(chan string, 1)
		go func() {
			defer func() {
				if r := recover(); r != nil {
					switch x := r.(type) {
					case %Q%VerifFail:
						done <- "assert " + x.Msg
					case %Q%VerifStop:
						done <- "diverged " + x.Why
					default:
						done <- "panic " + strings.ReplaceAll(fmt.Sprint(r), "\n", " ")
					}
				}
			}()
			f()
			done <- "ok -"
		}()
		select {
		case r := <-done:
			fmt.Printf("VERIF-CASE %d %s\n", i, r)
			fmt.Printf("VERIF-LOG %d %s\n", i, strings.Join(%Q%VerifLog, "\x1f"))
		case <-time.After(20 * time.Second):
			fmt.Printf("VERIF-CASE %d timeout -\n", i)
			fmt.Printf("VERIF-LOG %d \n", i)
		}
	}
}
`

// nativeRun replays cases of one package against the real build.
func nativeRun(P *Program, pkg string, cases []NativeCase) ([]NativeResult, string, error) {
	return nativeRunOpt(P, pkg, cases, false)
}

// nativeRace replays one case under the race detector: Kind "race" when the
// runtime reports a data race during it.
func nativeRace(P *Program, pkg string, c NativeCase) (NativeResult, string, error) {
	raceMode = true
	defer func() { raceMode = false }()
	res, out, err := nativeRunOpt(P, pkg, []NativeCase{c}, true)
	if err != nil {
		return NativeResult{}, out, err
	}
	if strings.Contains(out, "WARNING: DATA RACE") {
		res[0].Kind, res[0].Detail = "race", "go test -race: WARNING: DATA RACE"
	}
	return res[0], out, nil
}

var raceMode bool

func nativeRunOpt(P *Program, pkg string, cases []NativeCase, noRetry bool) ([]NativeResult, string, error) {
	res := make([]NativeResult, len(cases))
	if len(cases) == 0 {
		return res, "", nil
	}
	tmp, err := os.MkdirTemp("", "vcheck-replay-")
	if err != nil {
		return nil, "", err
	}
	defer os.RemoveAll(tmp)
	_, paths, err := overlayFiles(P.repo, P.verif)
	if err != nil {
		return nil, "", err
	}
	// registry + test file
	var names []string
	for n, h := range P.harness {
		if h.Pkg == pkg {
			names = append(names, n)
		}
	}
	sort.Strings(names)
	pkgName := map[string]string{"db": "db", "sql": "sql", "root": "sqlittle", "driver": "driver"}[pkg]
	q, imp := "", ""
	if pkg == "root" || pkg == "driver" {
		q, imp = "sdbv.", `sdbv "github.com/alicebob/sqlittle/db"`
	}
	var reg bytes.Buffer
	fmt.Fprintf(&reg, "//go:build verif\n\npackage %s\n\nvar verifRegistry = map[string]func(){\n", pkgName)
	for _, n := range names {
		fmt.Fprintf(&reg, "\t%q: %s,\n", n, n)
	}
	reg.WriteString("}\n")
	regPath := filepath.Join(tmp, "zz_verif_registry_test.go")
	os.WriteFile(regPath, reg.Bytes(), 0o644)
	tst := strings.NewReplacer("%PKG%", pkgName, "%Q%", q, "%IMPORT%", imp).Replace(testTemplate)
	tstPath := filepath.Join(tmp, "zz_verif_replay_test.go")
	os.WriteFile(tstPath, []byte(tst), 0o644)
	dir := filepath.Join(P.repo, pkgDirs[pkg])
	paths[filepath.Join(dir, "zz_verif_registry_test.go")] = regPath
	paths[filepath.Join(dir, "zz_verif_replay_test.go")] = tstPath
	ovPath := filepath.Join(tmp, "overlay.json")
	writeJSON(ovPath, map[string]interface{}{"Replace": paths})
	casesPath := filepath.Join(tmp, "cases.json")
	type nc struct {
		Harness string
		Inputs  []map[string]interface{}
	}
	var ncs []nc
	for _, c := range cases {
		var in []map[string]interface{}
		for _, iv := range c.Inputs {
			in = append(in, map[string]interface{}{"k": iv.Kind, "v": iv.V, "b": iv.B})
		}
		ncs = append(ncs, nc{c.Harness, in})
	}
	writeJSON(casesPath, ncs)
	rel := "./" + pkgDirs[pkg]
	if pkgDirs[pkg] == "" {
		rel = "."
	}
	args := []string{"test", "-tags", "verif", "-overlay", ovPath, "-run", "^TestVerifReplay$", "-count=1", "-vet=off", "-timeout", "600s", "-v"}
	if raceMode {
		args = append(args, "-race")
	}
	cmd := exec.Command("go", append(args, rel)...)
	cmd.Dir = P.repo
	cmd.Env = append(os.Environ(), "GOFLAGS=-mod=mod", "GOPROXY=off", "GOSUMDB=off", "GOTOOLCHAIN=local", "VERIF_CASES="+casesPath)
	out, runErr := cmd.CombinedOutput()
	for i := range res {
		res[i].Kind = "missing"
	}
	for _, line := range strings.Split(string(out), "\n") {
		if strings.HasPrefix(line, "VERIF-CASE ") {
			f := strings.SplitN(line, " ", 4)
			var i int
			fmt.Sscan(f[1], &i)
			if i < len(res) && len(f) >= 3 {
				res[i].Kind = f[2]
				if len(f) == 4 {
					res[i].Detail = f[3]
				}
			}
		} else if strings.HasPrefix(line, "VERIF-LOG ") {
			f := strings.SplitN(line, " ", 3)
			var i int
			fmt.Sscan(f[1], &i)
			if i < len(res) && len(f) == 3 && f[2] != "" {
				res[i].Log = strings.Split(f[2], "\x1f")
			}
		}
	}
	_ = runErr
	fatal := func(o string) bool {
		return strings.Contains(o, "stack overflow") || strings.Contains(o, "goroutine stack exceeds") || strings.Contains(o, "out of memory")
	}
	if len(cases) == 1 {
		if res[0].Kind == "missing" && fatal(string(out)) {
			res[0].Kind, res[0].Detail = "fatal", "stack overflow / out of memory"
		}
	} else if !noRetry {
		// Cases run in order; a fatal error (stack overflow, out of memory) kills
		// the test binary, so the first unanswered case is the culprit and the
		// ones after it never ran: rerun the culprit alone and the rest as a batch.
		for depth := 0; depth < 6; depth++ {
			first := -1
			for i := range res {
				if res[i].Kind == "missing" {
					first = i
					break
				}
			}
			if first < 0 {
				break
			}
			r1, _, err := nativeRunOpt(P, pkg, cases[first:first+1], true)
			if err == nil {
				res[first] = r1[0]
				if res[first].Kind == "missing" {
					res[first].Kind = "crashed"
				}
			}
			if first+1 < len(cases) {
				r2, _, err := nativeRunOpt(P, pkg, cases[first+1:], true)
				if err == nil {
					copy(res[first+1:], r2)
				}
			}
		}
	}
	return res, string(out), nil
}

type KnownFinding struct {
	Property string `json:"property"`
	Harness  string `json:"harness,omitempty"`
	Kind     string `json:"kind"`
	Func     string `json:"func"`
	Msg      string `json:"msg,omitempty"`
	What     string `json:"what"`
	Status   string `json:"status"` // known | fixed
	Commit   string `json:"commit,omitempty"`
}

func loadKnown(verif string) []KnownFinding {
	var k struct {
		Findings []KnownFinding `json:"findings"`
	}
	b, err := os.ReadFile(filepath.Join(verif, "known_findings.json"))
	if err != nil {
		return nil
	}
	json.Unmarshal(b, &k)
	return k.Findings
}

func matchKnown(k []KnownFinding, prop string, v Violation) *KnownFinding {
	for i := range k {
		e := &k[i]
		if e.Status != "known" || e.Property != prop {
			continue
		}
		if e.Kind != "" && e.Kind != v.Kind {
			continue
		}
		if e.Func != "" && e.Func != v.Func {
			continue
		}
		if e.Harness != "" && e.Harness != v.Harness {
			continue
		}
		if e.Msg != "" && !strings.Contains(v.Msg, e.Msg) {
			continue
		}
		return e
	}
	return nil
}

// reproduced decides whether the native run confirms the violation.
func reproduced(v Violation, r NativeResult) bool {
	switch v.Kind {
	case "assert":
		return r.Kind == "assert" && (strings.TrimSpace(r.Detail) == strings.TrimSpace(v.Msg) || strings.HasPrefix(r.Detail, v.Msg+" ["))
	case "unwind":
		return r.Kind == "timeout" || r.Kind == "panic" || r.Kind == "fatal"
	case "alloc":
		return r.Kind == "panic" || r.Kind == "timeout" || r.Kind == "missing"
	case "deadlock":
		return r.Kind == "timeout"
	case "race":
		return r.Kind == "race"
	case "sharedwrite", "foreignwrite":
		// a property of the path itself: confirmed when the path is natively feasible
		return r.Kind == "ok"
	default:
		return r.Kind == "panic"
	}
}

func runProperty(prop, tier, repo, verif string, opts RunOpts, workers int, noReplay bool) int {
	start := time.Now()
	os.Setenv("VERIF_TIER", tier) // native replays must see the same tier as the executor
	P, err := loadProgram(repo, verif)
	if err != nil {
		fmt.Fprintln(os.Stderr, "load:", err)
		fmt.Println("INCONCLUSIVE property=" + prop + " reason=load-failed")
		return 2
	}
	var hs []*HarnessSpec
	for _, h := range P.harness {
		if !h.hasProp(prop) {
			continue
		}
		if h.Tier == "thorough" && tier != "thorough" {
			continue
		}
		if h.Tier == "quick" && tier != "quick" {
			continue
		}
		hs = append(hs, h)
	}
	sort.Slice(hs, func(i, j int) bool { return hs[i].Name < hs[j].Name })
	if len(hs) == 0 {
		fmt.Println("INCONCLUSIVE property=" + prop + " reason=no-harness")
		return 2
	}
	opts.FrameCheck = true
	opts_solver = opts.SolverBin
	results := runMany(P, hs, opts, workers)

	known := loadKnown(verif)
	exit := 0
	var inconclusive []string
	type pend struct {
		v   Violation
		pkg string
	}
	var pending []pend
	var witnesses []Witness
	witPkg := map[string]string{}
	for _, r := range results {
		if r.Unsupported != "" {
			inconclusive = append(inconclusive, r.Name+": UNSUPPORTED "+firstLine(r.Unsupported))
		}
		for _, m := range r.MissingReach {
			inconclusive = append(inconclusive, r.Name+": reach witness missing (vacuity): "+m)
		}
		for _, m := range r.Inconclusive {
			inconclusive = append(inconclusive, r.Name+": "+m)
		}
		for _, m := range r.SolverErrors {
			inconclusive = append(inconclusive, r.Name+": solver: "+m)
		}
		hasUnwind := false
		if prop == "C20" {
			for _, sw := range r.SharedWrites {
				// frame condition of C20: no operation stores to package-level state
				var wi []InputVal
				if len(r.Witnesses) > 0 {
					wi = r.Witnesses[0].Inputs
				}
				r.Violations = append(r.Violations, Violation{Kind: "sharedwrite", Site: sw, Func: r.Name, Msg: sw, Inputs: wi, Harness: r.Name})
			}
		}
		for _, v := range r.Violations {
			pending = append(pending, pend{v, r.Pkg})
			if v.Kind == "unwind" {
				hasUnwind = true
			}
		}
		if len(r.BoundExceeded) > 0 && !hasUnwind {
			inconclusive = append(inconclusive, r.Name+": BOUND-EXCEEDED "+r.BoundExceeded[0])
		}
		for _, w := range r.Witnesses {
			witnesses = append(witnesses, w)
			witPkg[w.Harness] = r.Pkg
		}
	}

	// native replays, batched per package
	validated := 0
	var vioLines, knownLines, unconfirmed []string
	nvio := 0
	if !noReplay {
		byPkg := map[string][]int{}
		for i, p := range pending {
			byPkg[p.pkg] = append(byPkg[p.pkg], i)
		}
		witByPkg := map[string][]int{}
		for i, w := range witnesses {
			witByPkg[witPkg[w.Harness]] = append(witByPkg[witPkg[w.Harness]], i)
		}
		pkgs := map[string]bool{}
		for k := range byPkg {
			pkgs[k] = true
		}
		for k := range witByPkg {
			pkgs[k] = true
		}
		for pkg := range pkgs {
			var cases []NativeCase
			for _, i := range byPkg[pkg] {
				cases = append(cases, NativeCase{pending[i].v.Harness, pending[i].v.Inputs})
			}
			for _, i := range witByPkg[pkg] {
				cases = append(cases, NativeCase{witnesses[i].Harness, witnesses[i].Inputs})
			}
			// the driver package is the one with a goroutine: its replays run under
			// the race detector, which cross-checks the sequentialised model — a
			// race the executor did not predict means the model missed a schedule
			raceMode = pkg == "driver"
			nres, out, err := nativeRun(P, pkg, cases)
			raceMode = false
			if err != nil {
				inconclusive = append(inconclusive, "native replay failed: "+err.Error())
				continue
			}
			if pkg == "driver" && strings.Contains(out, "WARNING: DATA RACE") {
				predicted := false
				for _, i := range byPkg[pkg] {
					if pending[i].v.Kind == "race" {
						predicted = true
					}
				}
				if !predicted {
					inconclusive = append(inconclusive, "go test -race reports a data race on a replayed path that the happens-before bookkeeping did not predict: "+lastLines(out[strings.Index(out, "WARNING: DATA RACE"):], 12))
				}
			}
			allMissing := true
			for _, r := range nres {
				if r.Kind != "missing" {
					allMissing = false
				}
			}
			if allMissing {
				inconclusive = append(inconclusive, "native replay produced no results for package "+pkg+": "+lastLines(out, 15))
				continue
			}
			for k, i := range byPkg[pkg] {
				v := pending[i].v
				nr := nres[k]
				validated++
				if v.Kind == "race" {
					// confirmed by the runtime's race detector on the same inputs
					if rr, _, err := nativeRace(P, pkg, NativeCase{v.Harness, v.Inputs}); err == nil {
						nr = rr
					}
				}
				if !reproduced(v, nr) {
					unconfirmed = append(unconfirmed, fmt.Sprintf("%s %s %s %q: native run gave %s %s", v.Harness, v.Kind, v.Site, v.Msg, nr.Kind, nr.Detail))
					continue
				}
				if kf := matchKnown(known, prop, v); kf != nil {
					knownLines = append(knownLines, fmt.Sprintf("KNOWN-FINDING: property=%s %s [%s in %s]", prop, kf.What, v.Kind, v.Harness))
					continue
				}
				nvio++
				rp := filepath.Join(verif, "replays", prop, fmt.Sprintf("%s-%d.json", v.Harness, k))
				writeJSON(rp, ReplayFile{Property: prop, Harness: v.Harness, Pkg: pkg, Kind: v.Kind, Site: v.Site, Func: v.Func, Msg: v.Msg, Inputs: v.Inputs})
				vioLines = append(vioLines, fmt.Sprintf("VIOLATION property=%s replay=%s", prop, rp))
				fmt.Fprintf(os.Stderr, "  violation: %s %s at %s: %s\n", v.Harness, v.Kind, v.Site, v.Msg)
			}
			base := len(byPkg[pkg])
			for k, i := range witByPkg[pkg] {
				w := witnesses[i]
				nr := nres[base+k]
				validated++
				if nr.Kind != "ok" || !sameLog(w.Log, nr.Log) {
					inconclusive = append(inconclusive, fmt.Sprintf("%s: witness path does not replay natively (%s %s; log %v vs %v) — translator/stub mismatch", w.Harness, nr.Kind, nr.Detail, w.Log, nr.Log))
				}
			}
		}
	} else {
		for _, p := range pending {
			nvio++
			vioLines = append(vioLines, fmt.Sprintf("VIOLATION property=%s replay=(not replayed) %s %s %s", prop, p.v.Harness, p.v.Site, p.v.Msg))
		}
	}
	if len(unconfirmed) > 0 {
		for _, u := range unconfirmed {
			inconclusive = append(inconclusive, "counterexample did not reproduce natively: "+u)
		}
	}
	if len(vioLines) > 0 {
		exit = 1
	} else if len(inconclusive) > 0 {
		exit = 2
	}

	writeEvidence(P, prop, tier, results, validated, nvio, inconclusive, knownLines, time.Since(start).Seconds())
	knownLines = dedup(knownLines)
	for _, l := range knownLines {
		fmt.Println(l)
	}
	for _, l := range vioLines {
		fmt.Println(l)
	}
	for _, l := range dedup(inconclusive) {
		fmt.Println("INCONCLUSIVE property=" + prop + " " + l)
	}
	tot := struct{ paths, obl, q int }{}
	for _, r := range results {
		tot.paths += r.Paths
		tot.obl += r.Obligations
		tot.q += r.Queries
	}
	fmt.Printf("%s tier=%s harnesses=%d paths=%d obligations=%d solver_queries=%d native_runs=%d violations=%d known=%d exit=%d wall=%.1fs\n",
		prop, tier, len(results), tot.paths, tot.obl, tot.q, validated, len(vioLines), len(knownLines), exit, time.Since(start).Seconds())
	return exit
}

func lastLines(s string, n int) string {
	l := strings.Split(strings.TrimSpace(s), "\n")
	if len(l) > n {
		l = l[len(l)-n:]
	}
	return strings.Join(l, " | ")
}

func sameLog(a, b []string) bool {
	if len(a) != len(b) {
		return false
	}
	for i := range a {
		if a[i] != b[i] {
			return false
		}
	}
	return true
}

var opts_solver = "z3"

func writeEvidence(P *Program, prop, tier string, results []*HarnessResult, validated, nvio int, inconclusive, knownLines []string, wall float64) {
	seed := 0
	fmt.Sscan(os.Getenv("VERIF_SEED"), &seed)
	paths, forks, obl, nontriv, queries, unsat, sat, unknown := 0, 0, 0, 0, 0, 0, 0, 0
	solverS := 0.0
	funcs := map[string]bool{}
	assumes := map[string]bool{}
	var samples []interface{}
	for _, r := range results {
		paths += r.Paths + r.DeadPaths
		forks += r.Forks
		obl += r.Obligations
		nontriv += r.Obligations - r.Trivial
		queries += r.Queries
		unsat += r.Unsat
		sat += r.Sat
		unknown += r.Unknown
		solverS += r.SolverS
		for _, f := range r.Funcs {
			funcs[f] = true
		}
		for _, a := range r.Assumes {
			assumes[a] = true
		}
		if len(r.Witnesses) > 0 && len(samples) < 12 {
			samples = append(samples, map[string]interface{}{"harness": r.Name, "witness_path_inputs": r.Witnesses[0].Inputs, "reach_log": r.Witnesses[0].Log})
		}
	}
	var fl []string
	for f := range funcs {
		fl = append(fl, f)
	}
	sort.Strings(fl)
	al := []string{
		"trusted: go/ssa (x/tools v0.29.0) lowering, this executor (validated per run by native replay of witness paths), the SMT solver (z3 5.1.0 by default)",
		"bounded: every loop is unwound at most `unwind` times per frame; exceeding it is reported, never truncated",
	}
	for a := range assumes {
		al = append(al, a)
	}
	sort.Strings(al[2:])
	if len(samples) == 0 {
		samples = append(samples, "no completed path produced a witness")
	}
	if paths == 0 {
		paths = 1
	}
	ev := map[string]interface{}{
		"property_id": prop,
		"tier":        tier,
		"seed":        seed,
		"level":       "model_checking",
		"wall_s":      wall,
		"violations":  nvio,
		"assumptions": al,
		"coverage": map[string]interface{}{
			"states":                        paths,
			"transitions":                   max1(queries + forks),
			"traces_validated_against_impl": validated,
			"samples":                       samples,
			"evaluations":                   paths,
			"distinct_nontrivial":           nontriv,
			"rule":                          "evaluations = symbolic paths explored (each stands for all inputs satisfying its path condition); distinct_nontrivial = proof obligations (implicit panic checks + harness assertions) whose formula did not fold to a constant and were sent to the solver",
			"obligations":                   obl,
			"discharged":                    obl - nvio,
			"solver":                        map[string]interface{}{"queries": queries, "unsat": unsat, "sat": sat, "unknown": unknown, "seconds": solverS, "binary": opts_solver + " (one long-lived process per executor instance; every query self-contained after (reset))"},
			"functions_encoded":             fl,
			"harnesses":                     results,
			"inconclusive":                  dedup(inconclusive),
			"known_findings_matched":        knownLines,
			"exhaustive":                    false,
			"explanation":                   "bounded symbolic execution of the real code from go/ssa; verdict per obligation by SMT (unsat = holds for every value inside the bounds listed per harness)",
		},
	}
	writeJSON(filepath.Join(P.verif, "evidence", prop+".json"), ev)
}

func max1(n int) int {
	if n < 1 {
		return 1
	}
	return n
}

func replayFile(path, repo, verif string) int {
	b, err := os.ReadFile(path)
	if err != nil {
		fmt.Fprintln(os.Stderr, err)
		return 2
	}
	var rf ReplayFile
	if err := json.Unmarshal(b, &rf); err != nil {
		fmt.Fprintln(os.Stderr, err)
		return 2
	}
	P, err := loadProgram(repo, verif)
	if err != nil {
		fmt.Fprintln(os.Stderr, err)
		return 2
	}
	res, out, err := nativeRun(P, rf.Pkg, []NativeCase{{rf.Harness, rf.Inputs}})
	if err == nil && rf.Kind == "race" {
		var rr NativeResult
		rr, out, err = nativeRace(P, rf.Pkg, NativeCase{rf.Harness, rf.Inputs})
		res = []NativeResult{rr}
	}
	if err != nil {
		fmt.Fprintln(os.Stderr, err)
		return 2
	}
	v := Violation{Kind: rf.Kind, Msg: rf.Msg}
	fmt.Printf("replay %s: native result %s %s (expected %s %q at %s)\n", rf.Harness, res[0].Kind, res[0].Detail, rf.Kind, rf.Msg, rf.Site)
	for _, l := range strings.Split(out, "\n") {
		if strings.HasPrefix(l, "VERIF-DEBUG ") {
			fmt.Println(l)
		}
	}
	if res[0].Kind == "missing" {
		fmt.Println(lastLines(out, 20))
		return 2
	}
	if reproduced(v, res[0]) {
		fmt.Printf("VIOLATION property=%s replay=%s\n", rf.Property, path)
		return 1
	}
	return 0
}
