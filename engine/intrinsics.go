package main

import (
	"math"
	"fmt"
	"os"
	"strconv"
	"go/types"
	"strings"

	"golang.org/x/tools/go/ssa"
)

func (ex *Exec) argInt(v Value) int {
	t := v.(*Term)
	if !t.IsConst() {
		unsup("verif API needs a constant argument")
	}
	return int(sext(t.c, t.w))
}

func (ex *Exec) argStr(st *State, v Value) string {
	s, ok := ex.concreteStr(st, v.(SliceV))
	if !ok {
		return "<sym>"
	}
	return s
}

func (ex *Exec) freshInput(st *State, kind string, k Kind, w int) *Term {
	t := ex.tt.Var(fmt.Sprintf("in%d_%s", len(st.inputs), kind), k, w)
	st.inputs = append(st.inputs, Input{kind: kind, t: t})
	return t
}

func (ex *Exec) freshBytes(st *State, n int, asStr bool) SliceV {
	tt := ex.tt
	arr := tt.Var(fmt.Sprintf("buf%d_%d", len(st.inputs), n), KArr, 0)
	e := make([]Value, n)
	bs := make([]*Term, n)
	for i := range e {
		t := tt.Select(arr, tt.BV(uint64(i), 32))
		e[i] = t
		bs[i] = t
	}
	st.inputs = append(st.inputs, Input{kind: "bytes", n: n, bs: bs})
	fn := func(i *Term) *Term { return tt.Select(arr, tt.Extract(i, 31, 0)) }
	if n <= ex.smallBuf {
		// small buffers: independent byte variables and ite chains are cheaper
		// for the solver than array theory
		fn = nil
		for i := range e {
			t := tt.Var(fmt.Sprintf("b%d_%d_%d", len(st.inputs), n, i), KBV, 8)
			e[i] = t
			bs[i] = t
		}
	}
	id := st.alloc(nil, &ArrayV{e: e, fn: fn}, "input")
	nt := tt.BV(uint64(n), 64)
	return SliceV{obj: id, off: tt.BV(0, 64), len: nt, cap: nt, str: asStr}
}

func (ex *Exec) registerIntrinsics() {
	tt := ex.tt
	I := ex.intr
	I["verif:verifint64"] = func(ex *Exec, st *State, _ *ssa.CallCommon, a []Value) []Outcome {
		return ret1(st, ex.freshInput(st, "int64", KBV, 64))
	}
	I["verif:verifint"] = func(ex *Exec, st *State, _ *ssa.CallCommon, a []Value) []Outcome {
		return ret1(st, ex.freshInput(st, "int64", KBV, 64))
	}
	I["verif:verifuint32"] = func(ex *Exec, st *State, _ *ssa.CallCommon, a []Value) []Outcome {
		return ret1(st, ex.freshInput(st, "uint32", KBV, 32))
	}
	I["verif:verifint32"] = func(ex *Exec, st *State, _ *ssa.CallCommon, a []Value) []Outcome {
		return ret1(st, ex.freshInput(st, "uint32", KBV, 32))
	}
	I["verif:verifuint16"] = func(ex *Exec, st *State, _ *ssa.CallCommon, a []Value) []Outcome {
		return ret1(st, ex.freshInput(st, "uint16", KBV, 16))
	}
	I["verif:verifbyte"] = func(ex *Exec, st *State, _ *ssa.CallCommon, a []Value) []Outcome {
		return ret1(st, ex.freshInput(st, "byte", KBV, 8))
	}
	I["verif:verifbool"] = func(ex *Exec, st *State, _ *ssa.CallCommon, a []Value) []Outcome {
		return ret1(st, ex.freshInput(st, "bool", KBool, 0))
	}
	I["verif:veriffloat64"] = func(ex *Exec, st *State, _ *ssa.CallCommon, a []Value) []Outcome {
		// created from bits so that the replay vector is exact
		b := ex.freshInput(st, "float64", KBV, 64)
		return ret1(st, tt.FFromBits(b))
	}
	I["verif:verifchoice"] = func(ex *Exec, st *State, _ *ssa.CallCommon, a []Value) []Outcome {
		n := ex.argInt(a[0])
		var outs []Outcome
		for i := 0; i < n; i++ {
			s := st
			if i < n-1 {
				s = st.clone()
			}
			s.inputs = append(s.inputs, Input{kind: "choice", n: i})
			outs = append(outs, Outcome{st: s, ret: tt.BV(uint64(i), 64)})
		}
		ex.forks += n - 1
		// reverse so that small values are explored first (work is a stack)
		for i, j := 0, len(outs)-1; i < j; i, j = i+1, j-1 {
			outs[i], outs[j] = outs[j], outs[i]
		}
		return outs
	}
	// verifShard(n): an n-way case split whose cases are explored by separate
	// executor instances in parallel (directive //verif:shards n).
	I["verif:verifshard"] = func(ex *Exec, st *State, c *ssa.CallCommon, a []Value) []Outcome {
		n := ex.argInt(a[0])
		if ex.shard < 0 || ex.shards != n {
			return I["verif:verifchoice"](ex, st, c, a)
		}
		st.inputs = append(st.inputs, Input{kind: "choice", n: ex.shard})
		return ret1(st, tt.BV(uint64(ex.shard), 64))
	}
	I["verif:verifbytes"] = func(ex *Exec, st *State, _ *ssa.CallCommon, a []Value) []Outcome {
		return ret1(st, ex.freshBytes(st, ex.argInt(a[0]), false))
	}
	I["verif:verifstring"] = func(ex *Exec, st *State, _ *ssa.CallCommon, a []Value) []Outcome {
		return ret1(st, ex.freshBytes(st, ex.argInt(a[0]), true))
	}
	I["verif:verifassume"] = func(ex *Exec, st *State, _ *ssa.CallCommon, a []Value) []Outcome {
		c := a[0].(*Term)
		if c.IsConst() {
			if c.c == 0 {
				ex.deadPaths++
				return nil
			}
			return ret1(st, nil)
		}
		ex.assume(st, c)
		if ex.feasible(st) != Sat {
			ex.deadPaths++
			return nil
		}
		return ret1(st, nil)
	}
	I["verif:verifassert"] = func(ex *Exec, st *State, call *ssa.CallCommon, a []Value) []Outcome {
		msg := ex.argStr(st, a[1])
		site := "assert"
		if call != nil {
			p := ex.prog.Fset.Position(call.Pos())
			f := p.Filename
			if i := strings.LastIndex(f, "/"); i >= 0 {
				f = f[i+1:]
			}
			site = fmt.Sprintf("%s:%d", f, p.Line)
		}
		ex.asserts++
		if !ex.oblige(st, a[0].(*Term), "assert", site, ex.harness, msg) {
			ex.deadPaths++
			return nil
		}
		return ret1(st, nil)
	}
	I["verif:verifnoerr"] = func(ex *Exec, st *State, call *ssa.CallCommon, a []Value) []Outcome {
		e := a[0].(IfaceV)
		if e.typ != nil && os.Getenv("VERIF_DEBUG") != "" {
			fmt.Fprintf(os.Stderr, "verifNoErr: symbolic error value: %s\n", ex.describe(st, e))
		}
		return I["verif:verifassert"](ex, st, call, []Value{tt.Bool(e.typ == nil), a[1]})
	}
	I["verif:verifreach"] = func(ex *Exec, st *State, _ *ssa.CallCommon, a []Value) []Outcome {
		msg := ex.argStr(st, a[0])
		ex.reach[msg]++
		st.log = append(st.log, msg)
		return ret1(st, nil)
	}
	I["verif:verifobserve"] = func(ex *Exec, st *State, _ *ssa.CallCommon, a []Value) []Outcome {
		t := a[0].(*Term)
		st.obs = append(st.obs, t)
		st.log = append(st.log, fmt.Sprintf("obs#%d", len(st.obs)-1))
		return ret1(st, nil)
	}
	I["verif:veriftier"] = func(ex *Exec, st *State, _ *ssa.CallCommon, a []Value) []Outcome {
		return ret1(st, tt.BV(uint64(ex.tier), 64))
	}
	I["verif:verifnative"] = func(ex *Exec, st *State, _ *ssa.CallCommon, a []Value) []Outcome {
		return ret1(st, tt.Bool(false))
	}
	I["verif:verifnote"] = func(ex *Exec, st *State, _ *ssa.CallCommon, a []Value) []Outcome {
		ex.assumes[ex.argStr(st, a[0])] = true
		return ret1(st, nil)
	}
	I["verif:verifand"] = func(ex *Exec, st *State, _ *ssa.CallCommon, a []Value) []Outcome {
		return ret1(st, tt.BAnd(a[0].(*Term), a[1].(*Term)))
	}
	I["verif:verifor"] = func(ex *Exec, st *State, _ *ssa.CallCommon, a []Value) []Outcome {
		return ret1(st, tt.BOr(a[0].(*Term), a[1].(*Term)))
	}
	I["verif:verifite"] = func(ex *Exec, st *State, _ *ssa.CallCommon, a []Value) []Outcome {
		return ret1(st, tt.Ite(a[0].(*Term), a[1].(*Term), a[2].(*Term)))
	}
	I["verif:verifdebugf"] = func(ex *Exec, st *State, _ *ssa.CallCommon, a []Value) []Outcome { return ret1(st, nil) }
	I["verif:veriftempname"] = func(ex *Exec, st *State, _ *ssa.CallCommon, a []Value) []Outcome {
		return ret1(st, ex.constStr(st, "/ghost/"+ex.argStr(st, a[0])))
	}
	I["verif:verifsymbolic"] = func(ex *Exec, st *State, _ *ssa.CallCommon, a []Value) []Outcome {
		return ret1(st, tt.True)
	}

	nop := func(ex *Exec, st *State, _ *ssa.CallCommon, a []Value) []Outcome { return ret1(st, nil) }
	for _, n := range []string{
		"(*sync.Mutex).Lock", "(*sync.Mutex).Unlock", "(*sync.RWMutex).Lock", "(*sync.RWMutex).Unlock",
		"(*sync.RWMutex).RLock", "(*sync.RWMutex).RUnlock",
	} {
		I[n] = nop
	}

	I["database/sql.Register"] = nop
	I["bytes.Compare"] = func(ex *Exec, st *State, _ *ssa.CallCommon, a []Value) []Outcome {
		return ret1(st, ex.strCmp3(st, a[0].(SliceV), a[1].(SliceV)))
	}
	I["strings.Compare"] = I["bytes.Compare"]
	I["internal/bytealg.Compare"] = I["bytes.Compare"]
	I["bytes.Equal"] = func(ex *Exec, st *State, _ *ssa.CallCommon, a []Value) []Outcome {
		return ret1(st, ex.strEq(st, a[0].(SliceV), a[1].(SliceV)))
	}
	I["math.Float64frombits"] = func(ex *Exec, st *State, _ *ssa.CallCommon, a []Value) []Outcome {
		return ret1(st, tt.FFromBits(a[0].(*Term)))
	}
	I["math.Float64bits"] = func(ex *Exec, st *State, _ *ssa.CallCommon, a []Value) []Outcome {
		f := a[0].(*Term)
		if f.op == OFFromBits {
			// exact for non-NaN; NaN payloads are preserved by Go on amd64
			return ret1(st, f.a[0])
		}
		if f.IsConst() {
			return ret1(st, tt.BV(f.c, 64))
		}
		b := ex.freshAux(st, "fbits", KBV, 64)
		ex.assume(st, tt.BOr(tt.FIsNaN(f), tt.Eq(tt.FFromBits(b), f)))
		// structural identity for +0/-0: fp.eq is not enough; use SMT "=".
		ex.assume(st, tt.mk(&Term{op: OEq, kind: KBool, a: []*Term{tt.FFromBits(b), f}}))
		return ret1(st, b)
	}
	I["math.IsNaN"] = func(ex *Exec, st *State, _ *ssa.CallCommon, a []Value) []Outcome {
		return ret1(st, tt.FIsNaN(a[0].(*Term)))
	}
	I["math/bits.OnesCount"] = func(ex *Exec, st *State, _ *ssa.CallCommon, a []Value) []Outcome {
		x := a[0].(*Term)
		acc := tt.BV(0, 64)
		for i := 0; i < 64; i++ {
			acc = tt.Add(acc, tt.ZExt(tt.Extract(x, i, i), 64))
		}
		return ret1(st, acc)
	}

	// fmt: concrete arguments are formatted natively, otherwise opaque.
	I["fmt.Sprintf"] = func(ex *Exec, st *State, _ *ssa.CallCommon, a []Value) []Outcome {
		if s, ok := ex.sprintf(st, a); ok {
			return ret1(st, ex.constStr(st, s))
		}
		ex.assumes["fmt.Sprintf with symbolic arguments yields the opaque string \"<fmt>\""] = true
		return ret1(st, ex.constStr(st, "<fmt>"))
	}
	I["fmt.Errorf"] = func(ex *Exec, st *State, _ *ssa.CallCommon, a []Value) []Outcome {
		if s, ok := ex.sprintf(st, a); ok {
			return ret1(st, ex.newError(st, s))
		}
		return ret1(st, ex.newError(st, "<fmt error>"))
	}
	I["fmt.Fprintf"] = func(ex *Exec, st *State, _ *ssa.CallCommon, a []Value) []Outcome {
		return ret1(st, TupleV{tt.BV(0, 64), IfaceV{}})
	}
	I["fmt.Sprint"] = func(ex *Exec, st *State, _ *ssa.CallCommon, a []Value) []Outcome {
		return ret1(st, ex.constStr(st, "<fmt>"))
	}
	I["fmt.Println"] = func(ex *Exec, st *State, _ *ssa.CallCommon, a []Value) []Outcome {
		return ret1(st, TupleV{tt.BV(0, 64), IfaceV{}})
	}
	I["fmt.Printf"] = I["fmt.Println"]

	I["strings.ToLower"] = func(ex *Exec, st *State, _ *ssa.CallCommon, a []Value) []Outcome {
		return ret1(st, ex.caseMap(st, a[0].(SliceV), false))
	}
	I["strings.ToUpper"] = func(ex *Exec, st *State, _ *ssa.CallCommon, a []Value) []Outcome {
		return ret1(st, ex.caseMap(st, a[0].(SliceV), true))
	}
	I["strings.TrimRight"] = ex.trimRight
	I["strings.Map"] = ex.stringsMap
	I["strings.Join"] = func(ex *Exec, st *State, _ *ssa.CallCommon, a []Value) []Outcome {
		elems := a[0].(SliceV)
		sep := a[1].(SliceV)
		if !elems.len.IsConst() {
			unsup("strings.Join with symbolic count")
		}
		res := ex.emptyStr()
		for i := 0; i < int(elems.len.c); i++ {
			if i > 0 {
				res = ex.strConcat(st, res, sep)
			}
			res = ex.strConcat(st, res, ex.elemAt(st, elems, tt.BV(uint64(i), 64)).(SliceV))
		}
		return ret1(st, res)
	}
	I["strings.HasPrefix"] = func(ex *Exec, st *State, _ *ssa.CallCommon, a []Value) []Outcome {
		s, p := a[0].(SliceV), a[1].(SliceV)
		if !p.len.IsConst() {
			unsup("HasPrefix symbolic prefix length")
		}
		n := int(p.len.c)
		res := tt.Sle(p.len, s.len)
		nb := ex.capBound(st, s)
		for k := 0; k < n; k++ {
			kt := tt.BV(uint64(k), 64)
			res = tt.BAnd(res, tt.Eq(ex.elemAtClamped(st, s, kt, nb).(*Term), ex.elemAt(st, p, kt).(*Term)))
		}
		return ret1(st, res)
	}

	I["reflect.DeepEqual"] = func(ex *Exec, st *State, _ *ssa.CallCommon, a []Value) []Outcome {
		return ret1(st, ex.deepEqual(st, a[0], a[1], 0))
	}
	I["encoding/binary.Read"] = ex.binaryRead

	// numeric text parsing: nondeterministic result (value, maybe error)
	parse := func(kind Kind, w int) intrinsic {
		return func(ex *Exec, st *State, call *ssa.CallCommon, a []Value) []Outcome {
			// concrete text: the real strconv decides
			if cs, ok := ex.concreteStr(st, a[0].(SliceV)); ok {
				allConst := true
				for _, x := range a[1:] {
					if t, isT := x.(*Term); !isT || !t.IsConst() {
						allConst = false
					}
				}
				if allConst {
					name := ""
					if call != nil {
						if f := call.StaticCallee(); f != nil {
							name = f.Name()
						}
					}
					var v Value
					var err error
					switch name {
					case "ParseInt":
						var n int64
						n, err = strconv.ParseInt(cs, int(sext(a[1].(*Term).c, 64)), int(a[2].(*Term).c))
						v = tt.BV(uint64(n), 64)
					case "ParseUint":
						var n uint64
						n, err = strconv.ParseUint(cs, int(sext(a[1].(*Term).c, 64)), int(a[2].(*Term).c))
						v = tt.BV(n, 64)
					case "ParseFloat":
						var f float64
						f, err = strconv.ParseFloat(cs, int(a[1].(*Term).c))
						v = tt.FP(f)
					}
					if v != nil {
						if err != nil {
							return ret1(st, TupleV{v, ex.newError(st, err.Error())})
						}
						return ret1(st, TupleV{v, IfaceV{}})
					}
				}
			}
			ex.assumes["strconv parsing is a nondeterministic stub (any value, with or without error)"] = true
			s2 := st.clone()
			var v Value
			if kind == KFP {
				v = tt.FFromBits(ex.freshInput(st, "stub64", KBV, 64))
			} else {
				v = ex.freshInput(st, "stub64", KBV, w)
			}
			st.inputs = append(st.inputs, Input{kind: "stubchoice", n: 0})
			s2.inputs = append(s2.inputs, Input{kind: "stubchoice", n: 1})
			var zero Value = tt.BV(0, w)
			if kind == KFP {
				zero = tt.FP(0)
			}
			return []Outcome{{st: st, ret: TupleV{v, IfaceV{}}}, {st: s2, ret: TupleV{zero, ex.newError(s2, "strconv: stub error")}}}
		}
	}
	I["strconv.ParseInt"] = parse(KBV, 64)
	I["strconv.ParseUint"] = parse(KBV, 64)
	I["strconv.ParseFloat"] = parse(KFP, 64)
	I["strconv.FormatInt"] = func(ex *Exec, st *State, _ *ssa.CallCommon, a []Value) []Outcome {
		if t := a[0].(*Term); t.IsConst() && a[1].(*Term).IsConst() {
			return ret1(st, ex.constStr(st, fmt.Sprint(sext(t.c, 64))))
		}
		ex.assumes["strconv.Format* of symbolic numbers yields an opaque string"] = true
		return ret1(st, ex.constStr(st, "<num>"))
	}
	I["strconv.FormatFloat"] = func(ex *Exec, st *State, _ *ssa.CallCommon, a []Value) []Outcome {
		if f, fm, pr, bs := a[0].(*Term), a[1].(*Term), a[2].(*Term), a[3].(*Term); f.IsConst() && f.kind == KFP && fm.IsConst() && pr.IsConst() && bs.IsConst() {
			// concrete arguments: the real function
			return ret1(st, ex.constStr(st, strconv.FormatFloat(math.Float64frombits(f.c), byte(fm.c), int(sext(pr.c, 64)), int(sext(bs.c, 64)))))
		}
		ex.assumes["strconv.Format* of symbolic numbers yields an opaque string"] = true
		return ret1(st, ex.constStr(st, "<num>"))
	}
	I["time.Unix"] = func(ex *Exec, st *State, call *ssa.CallCommon, a []Value) []Outcome {
		ex.assumes["time.Unix/time.Parse are stubs returning the zero time.Time"] = true
		return ret1(st, ex.zero(call.Signature().Results().At(0).Type()))
	}
	I["time.Parse"] = func(ex *Exec, st *State, call *ssa.CallCommon, a []Value) []Outcome {
		ex.assumes["time.Unix/time.Parse are stubs returning the zero time.Time"] = true
		z := ex.zero(call.Signature().Results().At(0).Type())
		s2 := st.clone()
		st.inputs = append(st.inputs, Input{kind: "stubchoice", n: 0})
		s2.inputs = append(s2.inputs, Input{kind: "stubchoice", n: 1})
		return []Outcome{{st: st, ret: TupleV{z, IfaceV{}}}, {st: s2, ret: TupleV{z, ex.newError(s2, "time: stub error")}}}
	}
	// unicode predicates: exact below 0x80 (executed from SSA for Latin-1 via
	// the real tables), uninterpreted above.
	for _, n := range []string{"IsLetter", "IsDigit", "IsSpace", "IsUpper", "IsLower"} {
		name := n
		I["unicode."+name] = func(ex *Exec, st *State, _ *ssa.CallCommon, a []Value) []Outcome {
			r := a[0].(*Term)
			return ret1(st, ex.unicodePred(name, r))
		}
	}
}

func (ex *Exec) unicodePred(name string, r *Term) *Term {
	tt := ex.tt
	in := func(lo, hi rune) *Term {
		return tt.BAnd(tt.Sle(tt.BV(uint64(lo), 32), r), tt.Sle(r, tt.BV(uint64(hi), 32)))
	}
	eq := func(c rune) *Term { return tt.Eq(r, tt.BV(uint64(c), 32)) }
	var ascii *Term
	switch name {
	case "IsLetter":
		ascii = tt.BOr(in('A', 'Z'), in('a', 'z'))
		// Latin-1 letters: exact
		ascii = tt.BOr(ascii, tt.BOr(tt.BOr(eq(0xAA), eq(0xB5)), tt.BOr(eq(0xBA), tt.BAnd(in(0xC0, 0xFF), tt.BAnd(tt.BNot(eq(0xD7)), tt.BNot(eq(0xF7)))))))
	case "IsDigit":
		ascii = in('0', '9')
	case "IsSpace":
		ascii = tt.BOr(tt.BOr(in('\t', '\r'), eq(' ')), tt.BOr(eq(0x85), eq(0xA0)))
	case "IsUpper":
		ascii = tt.BOr(in('A', 'Z'), tt.BAnd(in(0xC0, 0xDE), tt.BNot(eq(0xD7))))
	case "IsLower":
		ascii = tt.BOr(in('a', 'z'), tt.BOr(tt.BOr(eq(0xB5), in(0xDF, 0xFF)), tt.False))
		ascii = tt.BAnd(ascii, tt.BNot(eq(0xF7)))
	}
	if r.IsConst() && r.c <= 0xFF {
		return ascii
	}
	ex.assumes["unicode.Is* is exact for runes <= U+00FF and an uninterpreted (consistent) predicate above"] = true
	uf := tt.UF("unicode_"+name, KBool, 0, r)
	return tt.Ite(tt.BAnd(tt.Sle(tt.BV(0, 32), r), tt.Sle(r, tt.BV(0xFF, 32))), ascii, uf)
}

// caseMap: ASCII letters are mapped; other bytes are left unchanged.
func (ex *Exec) caseMap(st *State, s SliceV, upper bool) SliceV {
	tt := ex.tt
	n := ex.capBound(st, s)
	if n == 0 {
		return s
	}
	if cs, ok := ex.concreteStr(st, s); ok {
		if upper {
			return ex.constStr(st, strings.ToUpper(cs))
		}
		return ex.constStr(st, strings.ToLower(cs))
	}
	ex.assumes["strings.ToLower/ToUpper: ASCII letters mapped exactly, non-ASCII runes modelled as caseless (identity)"] = true
	e := make([]Value, n)
	for k := 0; k < n; k++ {
		b := ex.elemAt(st, s, tt.BV(uint64(k), 64)).(*Term)
		var isL, mapped *Term
		if upper {
			isL = tt.BAnd(tt.Ule(tt.BV('a', 8), b), tt.Ule(b, tt.BV('z', 8)))
			mapped = tt.Sub(b, tt.BV(32, 8))
		} else {
			isL = tt.BAnd(tt.Ule(tt.BV('A', 8), b), tt.Ule(b, tt.BV('Z', 8)))
			mapped = tt.Add(b, tt.BV(32, 8))
		}
		e[k] = tt.Ite(isL, mapped, b)
	}
	id := st.alloc(nil, &ArrayV{e: e}, "casemap")
	return SliceV{obj: id, off: tt.BV(0, 64), len: s.len, cap: s.len, str: true}
}

// trimRight with an ASCII cutset: bytewise exact.
func (ex *Exec) trimRight(_ *Exec, st *State, _ *ssa.CallCommon, a []Value) []Outcome {
	tt := ex.tt
	s := a[0].(SliceV)
	cut, ok := ex.concreteStr(st, a[1].(SliceV))
	if !ok {
		unsup("TrimRight with symbolic cutset")
	}
	for i := 0; i < len(cut); i++ {
		if cut[i] >= 0x80 {
			unsup("TrimRight with non-ASCII cutset")
		}
	}
	n := ex.capBound(st, s)
	inCut := func(b *Term) *Term {
		r := tt.False
		for i := 0; i < len(cut); i++ {
			r = tt.BOr(r, tt.Eq(b, tt.BV(uint64(cut[i]), 8)))
		}
		return r
	}
	// newLen = the smallest L such that all bytes in [L, len) are in the cutset
	newLen := tt.BV(0, 64)
	// scan from the front: newLen = (index of last byte not in cutset) + 1
	for k := 0; k < n; k++ {
		kt := tt.BV(uint64(k), 64)
		b := ex.elemAt(st, s, kt).(*Term)
		keep := tt.BAnd(tt.Slt(kt, s.len), tt.BNot(inCut(b)))
		newLen = tt.Ite(keep, tt.BV(uint64(k+1), 64), newLen)
	}
	return ret1(st, SliceV{obj: s.obj, pre: s.pre, off: s.off, len: newLen, cap: newLen, str: true})
}

// stringsMap models strings.Map(f, s) for valid UTF-8 input where f keeps
// ASCII in ASCII and leaves non-ASCII runes unchanged (checked with the solver
// on a fresh rune). Bytewise on that basis.
func (ex *Exec) stringsMap(_ *Exec, st *State, _ *ssa.CallCommon, a []Value) []Outcome {
	tt := ex.tt
	f := a[0].(FuncV)
	s := a[1].(SliceV)
	n := ex.capBound(st, s)
	if n == 0 {
		return ret1(st, s)
	}
	ex.assumes["strings.Map: input text is valid UTF-8; mapping applied per ASCII byte, multi-byte runes checked to be left unchanged by the mapping function"] = true
	// check f(r) == r for all r >= 0x80 (one symbolic call)
	{
		probe := st.clone()
		r := ex.freshAux(probe, "maprune", KBV, 32)
		ex.assume(probe, tt.Sle(tt.BV(0x80, 32), r))
		ex.assume(probe, tt.Sle(r, tt.BV(0x10FFFF, 32)))
		for _, o := range ex.callFunc(probe, f, []Value{r}, nil) {
			if o.pan != nil {
				unsup("strings.Map: mapping function panics")
			}
			if ex.feasible(o.st, tt.BNot(tt.Eq(o.ret.(*Term), r))) != Unsat {
				unsup("strings.Map: mapping changes non-ASCII runes; not modelled")
			}
		}
	}
	states := []*State{st}
	e := make([]Value, n)
	for k := 0; k < n; k++ {
		b := ex.elemAt(st, s, tt.BV(uint64(k), 64)).(*Term)
		if b.IsConst() && b.c >= 0x80 {
			e[k] = b
			continue
		}
		// call f on the ASCII interpretation of b in a scratch state and merge
		probe := st.clone()
		ex.assume(probe, tt.Ult(b, tt.BV(0x80, 8)))
		var mapped *Term
		if ex.feasible(probe) == Sat {
			outs := ex.callFunc(probe, f, []Value{tt.ZExt(b, 32)}, nil)
			base := len(st.pc) + 1
			for i := len(outs) - 1; i >= 0; i-- {
				o := outs[i]
				if o.pan != nil {
					unsup("strings.Map: mapping function panics")
				}
				d := tt.True
				if len(o.st.pc) >= base {
					for _, p := range o.st.pc[base:] {
						d = tt.BAnd(d, p)
					}
				}
				rv := tt.Extract(o.ret.(*Term), 7, 0)
				if mapped == nil {
					mapped = rv
				} else {
					mapped = tt.Ite(d, rv, mapped)
				}
			}
		}
		if mapped == nil {
			e[k] = b
		} else {
			e[k] = tt.Ite(tt.Ult(b, tt.BV(0x80, 8)), mapped, b)
		}
	}
	_ = states
	id := st.alloc(nil, &ArrayV{e: e}, "map")
	return ret1(st, SliceV{obj: id, off: tt.BV(0, 64), len: s.len, cap: s.len, str: true})
}

// deepEqual: structural equality for the value shapes the repo uses
// (slices of structs of strings/ints).
func (ex *Exec) deepEqual(st *State, a, b Value, depth int) *Term {
	tt := ex.tt
	if depth > 20 {
		unsup("DeepEqual depth")
	}
	switch x := a.(type) {
	case IfaceV:
		y, ok := b.(IfaceV)
		if !ok {
			return tt.False
		}
		if x.typ == nil || y.typ == nil {
			return tt.Bool(x.typ == nil && y.typ == nil)
		}
		if !types.Identical(x.typ, y.typ) {
			return tt.False
		}
		return ex.deepEqual(st, x.val, y.val, depth+1)
	case *Term:
		y := b.(*Term)
		if x.kind == KFP || x.kind == KF32 {
			return tt.FCmp(OFEq, x, y)
		}
		return tt.Eq(x, y)
	case SliceV:
		y := b.(SliceV)
		if x.str {
			return ex.strEq(st, x, y)
		}
		// nil vs non-nil empty differ
		if (x.obj == 0) != (y.obj == 0) {
			return tt.False
		}
		if !x.len.IsConst() || !y.len.IsConst() {
			unsup("DeepEqual on slices of symbolic length")
		}
		if x.len.c != y.len.c {
			return tt.False
		}
		res := tt.True
		for i := 0; i < int(x.len.c); i++ {
			it := tt.BV(uint64(i), 64)
			res = tt.BAnd(res, ex.deepEqual(st, ex.elemAt(st, x, it), ex.elemAt(st, y, it), depth+1))
		}
		return res
	case *StructV:
		y := b.(*StructV)
		res := tt.True
		for i := range x.f {
			res = tt.BAnd(res, ex.deepEqual(st, x.f[i], y.f[i], depth+1))
		}
		return res
	case *ArrayV:
		y := b.(*ArrayV)
		res := tt.True
		for i := range x.e {
			res = tt.BAnd(res, ex.deepEqual(st, x.e[i], y.e[i], depth+1))
		}
		return res
	case Ptr:
		y := b.(Ptr)
		if x.obj == 0 || y.obj == 0 {
			return tt.Bool(x.obj == y.obj)
		}
		return ex.deepEqual(st, ex.load(st, x), ex.load(st, y), depth+1)
	}
	unsup("DeepEqual on %T", a)
	return nil
}

// binaryRead models encoding/binary.Read(bytes.NewBuffer(b), BigEndian, &fixedStruct).
func (ex *Exec) binaryRead(_ *Exec, st *State, call *ssa.CallCommon, a []Value) []Outcome {
	tt := ex.tt
	rd := a[0].(IfaceV)
	data := a[2].(IfaceV)
	bufp, ok := rd.val.(Ptr)
	if !ok || !strings.HasSuffix(rd.typ.String(), "bytes.Buffer") {
		unsup("binary.Read from %s", rd.typ)
	}
	if !strings.Contains(a[1].(IfaceV).typ.String(), "bigEndian") {
		unsup("binary.Read byte order %s", a[1].(IfaceV).typ)
	}
	bufObj := ex.load(st, bufp).(*StructV)
	src := bufObj.f[0].(SliceV) // buf []byte
	off := bufObj.f[1].(*Term)  // off int
	avail := tt.Sub(src.len, off)
	dp := data.val.(Ptr)
	target := data.typ.(*types.Pointer).Elem()
	size := int(types.SizesFor("gc", "amd64").Sizeof(target))
	// binary.Size ignores padding: compute packed size
	size = packedSize(target)
	short, okst := ex.split(st, tt.Slt(avail, tt.BV(uint64(size), 64)))
	var outs []Outcome
	if short != nil {
		outs = append(outs, Outcome{st: short, ret: ex.newError(short, "unexpected EOF")})
	}
	if okst != nil {
		pos := 0
		v := ex.decodeBE(okst, src, off, &pos, target)
		ex.store(okst, dp, v)
		outs = append(outs, Outcome{st: okst, ret: IfaceV{}})
	}
	return outs
}

func packedSize(t types.Type) int {
	switch u := t.Underlying().(type) {
	case *types.Basic:
		return intWidth(u) / 8
	case *types.Array:
		return int(u.Len()) * packedSize(u.Elem())
	case *types.Struct:
		n := 0
		for i := 0; i < u.NumFields(); i++ {
			n += packedSize(u.Field(i).Type())
		}
		return n
	}
	unsup("binary.Read of %s", t)
	return 0
}

func (ex *Exec) decodeBE(st *State, src SliceV, off *Term, pos *int, t types.Type) Value {
	tt := ex.tt
	switch u := t.Underlying().(type) {
	case *types.Basic:
		w := intWidth(u)
		var acc *Term
		for i := 0; i < w/8; i++ {
			b := ex.elemAt(st, src, tt.Add(off, tt.BV(uint64(*pos), 64))).(*Term)
			*pos++
			if acc == nil {
				acc = tt.ZExt(b, w)
			} else {
				acc = tt.Or(tt.Shl(acc, tt.BV(8, w)), tt.ZExt(b, w))
			}
		}
		return acc
	case *types.Array:
		e := make([]Value, u.Len())
		for i := range e {
			e[i] = ex.decodeBE(st, src, off, pos, u.Elem())
		}
		return &ArrayV{e: e}
	case *types.Struct:
		f := make([]Value, u.NumFields())
		for i := range f {
			v := ex.decodeBE(st, src, off, pos, u.Field(i).Type())
			if u.Field(i).Name() == "_" {
				v = ex.zero(u.Field(i).Type())
			}
			f[i] = v
		}
		return &StructV{f}
	}
	unsup("binary.Read of %s", t)
	return nil
}
