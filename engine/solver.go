package main

// One long-lived `z3 -in` process per worker. Terms are named once with
// define-fun at level 0; each query is push / assert* / check-sat / pop.

import (
	"bufio"
	"fmt"
	"io"
	"os"
	"os/exec"
	"sort"
	"strconv"
	"strings"
	"time"
)

type SatResult int

const (
	Unsat SatResult = iota
	Sat
	Unknown
)

func (r SatResult) String() string { return [...]string{"unsat", "sat", "unknown"}[r] }

type Solver struct {
	cmd       *exec.Cmd
	in        io.WriteCloser
	out       *bufio.Reader
	tt        *TermTable
	defd      map[int]bool
	ufDecl    map[string]bool
	Queries   int
	NSat      int
	NUnsat    int
	NUnknown  int
	Seconds   float64
	memo      map[string]SatResult
	MemoHits  int
	timeoutMs int
	dump      io.Writer
	bin       string
	errors    []string
	onSlow    func(sec float64, r SatResult, bytes int)
	plain     bool
	incremental bool
	sinceReset int
}

func NewSolver(tt *TermTable, bin string, timeoutMs int) (*Solver, error) {
	s := &Solver{tt: tt, defd: map[int]bool{}, ufDecl: map[string]bool{}, memo: map[string]SatResult{}, timeoutMs: timeoutMs, bin: bin}
	if err := s.start(); err != nil {
		return nil, err
	}
	s.incremental = os.Getenv("VERIF_SOLVER_MODE") == "incremental"
	if d := os.Getenv("VERIF_SMTDUMP"); d != "" {
		f, _ := os.CreateTemp("", "vcheck-smt-*.smt2")
		s.dump = f
	}
	return s, nil
}

func (s *Solver) start() error {
	var cmd *exec.Cmd
	switch {
	case strings.Contains(s.bin, "cvc5"):
		cmd = exec.Command(s.bin, "--incremental", "--lang=smt2", "--produce-models", fmt.Sprintf("--tlimit-per=%d", s.timeoutMs))
	default:
		cmd = exec.Command(s.bin, "-in", "-smt2")
	}
	in, err := cmd.StdinPipe()
	if err != nil {
		return err
	}
	out, err := cmd.StdoutPipe()
	if err != nil {
		return err
	}
	cmd.Stderr = os.Stderr
	if err := cmd.Start(); err != nil {
		return err
	}
	s.cmd, s.in, s.out = cmd, in, bufio.NewReaderSize(out, 1<<20)
	s.defd = map[int]bool{}
	s.ufDecl = map[string]bool{}
	if strings.Contains(s.bin, "cvc5") {
		s.send("(set-logic ALL)\n")
	} else {
		s.send(fmt.Sprintf("(set-option :timeout %d)\n", s.timeoutMs))
	}
	s.send("(set-option :produce-models true)\n")
	return nil
}

func (s *Solver) Close() {
	if s.cmd != nil {
		s.in.Close()
		s.cmd.Process.Kill()
		s.cmd.Wait()
		s.cmd = nil
	}
}

func (s *Solver) send(x string) {
	if s.dump != nil {
		io.WriteString(s.dump, x)
	}
	io.WriteString(s.in, x)
}

// define makes sure t and all its descendants are named in the solver.
func (s *Solver) define(t *Term, sb *strings.Builder) {
	if s.defd[t.id] {
		return
	}
	// iterative post-order to avoid deep recursion on long ite chains
	type fr struct {
		t *Term
		i int
	}
	stack := []fr{{t, 0}}
	for len(stack) > 0 {
		f := &stack[len(stack)-1]
		if s.defd[f.t.id] {
			stack = stack[:len(stack)-1]
			continue
		}
		if f.i < len(f.t.a) {
			c := f.t.a[f.i]
			f.i++
			if !s.defd[c.id] {
				stack = append(stack, fr{c, 0})
			}
			continue
		}
		x := f.t
		stack = stack[:len(stack)-1]
		s.defd[x.id] = true
		switch x.op {
		case OConst:
		case OVar:
			fmt.Fprintf(sb, "(declare-const %s %s)\n", smtName(x.name), sortStr(x.kind, x.w))
		default:
			if x.op == OUF && !s.ufDecl[x.name] {
				s.ufDecl[x.name] = true
				var as []string
				for _, a := range x.a {
					as = append(as, sortStr(a.kind, a.w))
				}
				fmt.Fprintf(sb, "(declare-fun %s (%s) %s)\n", smtName(x.name), strings.Join(as, " "), sortStr(x.kind, x.w))
			}
			fmt.Fprintf(sb, "(define-fun t%d () %s %s)\n", x.id, sortStr(x.kind, x.w), x.body())
		}
	}
}

func (s *Solver) readLine() (string, error) {
	for {
		l, err := s.out.ReadString('\n')
		l = strings.TrimSpace(l)
		if l != "" || err != nil {
			return l, err
		}
	}
}

// Check decides satisfiability of the conjunction. If wantModel is non-nil and
// the result is sat, values for those terms are returned (as uint64 bit
// patterns; FP values as IEEE bits).
func (s *Solver) Check(conj []*Term, wantModel []*Term) (SatResult, []uint64) {
	// trivial cases
	live := conj[:0:0]
	for _, c := range conj {
		if c.IsConst() {
			if c.c == 0 {
				return Unsat, nil
			}
			continue
		}
		live = append(live, c)
	}
	var key string
	if wantModel == nil {
		ids := make([]int, len(live))
		for i, c := range live {
			ids[i] = c.id
		}
		sort.Ints(ids)
		var kb strings.Builder
		last := -1
		for _, id := range ids {
			if id != last {
				kb.WriteString(strconv.Itoa(id))
				kb.WriteByte(',')
			}
			last = id
		}
		key = kb.String()
		if r, ok := s.memo[key]; ok {
			s.MemoHits++
			return r, nil
		}
		if len(live) == 0 {
			return Sat, nil
		}
	}
	var sb strings.Builder
	// every query is self-contained: (reset), then only the definitions in the
	// cone of the asserted terms. (Long push/pop sessions made z3 slower by
	// orders of magnitude than the same query posed on its own.)
	if s.incremental {
		if s.sinceReset > 4000 {
			// keep the definition table from growing without bound
			s.defd = map[int]bool{}
			s.ufDecl = map[string]bool{}
			sb.WriteString("(reset)\n")
			fmt.Fprintf(&sb, "(set-option :timeout %d)\n", s.timeoutMs)
			s.sinceReset = 0
		}
		s.sinceReset++
	} else {
		s.defd = map[int]bool{}
		s.ufDecl = map[string]bool{}
		sb.WriteString("(reset)\n")
		if !strings.Contains(s.bin, "cvc5") {
			fmt.Fprintf(&sb, "(set-option :timeout %d)\n", s.timeoutMs)
		} else {
			sb.WriteString("(set-logic ALL)\n(set-option :produce-models true)\n")
		}
	}
	for _, c := range live {
		s.define(c, &sb)
	}
	for _, m := range wantModel {
		s.define(m, &sb)
	}
	if s.incremental {
		sb.WriteString("(push 1)\n")
	}
	for _, c := range live {
		sb.WriteString("(assert ")
		sb.WriteString(c.ref())
		sb.WriteString(")\n")
	}
	fp := false
	for _, c := range live {
		if c.fp {
			fp = true
		}
	}
	start := time.Now()
	// Two-stage portfolio: the incremental core answers small queries in
	// about a millisecond; arithmetic-heavy ones go to the bit-blasting tactic.
	tactic := !(fp || strings.Contains(s.bin, "cvc5") || s.plain)
	res := Unknown
	stage := func(cmd string, wait int) (SatResult, bool) {
		s.send(sb.String() + cmd)
		sb.Reset()
		type lr struct {
			l   string
			err error
		}
		ch := make(chan lr, 1)
		go func() {
			line, err := s.readLine()
			for err == nil && strings.HasPrefix(line, "(error") {
				s.errors = append(s.errors, line)
				line, err = s.readLine()
			}
			ch <- lr{line, err}
		}()
		var line string
		var err error
		select {
		case r := <-ch:
			line, err = r.l, r.err
		case <-time.After(time.Duration(wait+10000) * time.Millisecond):
			s.cmd.Process.Kill()
			<-ch
			err = fmt.Errorf("hard timeout")
		}
		if err != nil {
			if err.Error() != "hard timeout" {
				s.errors = append(s.errors, "solver died: "+err.Error())
			}
			s.Close()
			s.start()
			return Unknown, false
		}
		switch line {
		case "sat":
			return Sat, true
		case "unsat":
			return Unsat, true
		}
		return Unknown, true
	}
	alive := true
	if tactic {
		res, alive = stage("(check-sat-using qfaufbv)\n", s.timeoutMs)
	} else {
		res, alive = stage("(check-sat)\n", s.timeoutMs)
	}
	if !alive {
		s.Seconds += time.Since(start).Seconds()
		s.Queries++
		s.NUnknown++
		return Unknown, nil
	}
	var vals []uint64
	if res == Sat && len(wantModel) > 0 {
		vals = make([]uint64, len(wantModel))
		// query in chunks
		const chunk = 256
		for off := 0; off < len(wantModel); off += chunk {
			end := off + chunk
			if end > len(wantModel) {
				end = len(wantModel)
			}
			var gb strings.Builder
			gb.WriteString("(get-value (")
			n := 0
			for _, m := range wantModel[off:end] {
				if m.IsConst() {
					continue
				}
				if m.kind == KFP || m.kind == KF32 {
					// ask for the value; parse the fp literal
				}
				gb.WriteString(m.ref())
				gb.WriteByte(' ')
				n++
			}
			gb.WriteString("))\n")
			var parsed []uint64
			if n > 0 {
				s.send(gb.String())
				txt := s.readSexp()
				parsed = parseGetValue(txt)
			}
			pi := 0
			for i, m := range wantModel[off:end] {
				if m.IsConst() {
					vals[off+i] = m.c
					continue
				}
				if pi < len(parsed) {
					vals[off+i] = parsed[pi]
				}
				pi++
			}
		}
	}
	if s.incremental {
		s.send("(pop 1)\n")
	}
	s.Seconds += time.Since(start).Seconds()
	if s.onSlow != nil && time.Since(start).Seconds() > 2 {
		s.onSlow(time.Since(start).Seconds(), res, len(sb.String()))
	}
	s.Queries++
	switch res {
	case Sat:
		s.NSat++
	case Unsat:
		s.NUnsat++
	default:
		s.NUnknown++
	}
	if wantModel == nil && res != Unknown {
		s.memo[key] = res
	}
	return res, vals
}

// readSexp reads one balanced s-expression from the solver.
func (s *Solver) readSexp() string {
	var sb strings.Builder
	depth := 0
	started := false
	inBar := false
	for {
		b, err := s.out.ReadByte()
		if err != nil {
			return sb.String()
		}
		sb.WriteByte(b)
		if b == '|' {
			inBar = !inBar
		}
		if inBar {
			continue
		}
		if b == '(' {
			depth++
			started = true
		} else if b == ')' {
			depth--
			if started && depth == 0 {
				return sb.String()
			}
		}
	}
}

// parseGetValue parses "((name val) (name val) ...)" into bit patterns.
func parseGetValue(txt string) []uint64 {
	toks := tokenizeSexp(txt)
	// structure: ( ( k v ) ( k v ) ... )
	var res []uint64
	pos := 1 // skip outer (
	for pos < len(toks) && toks[pos] == "(" {
		pos++ // (
		// key: one sexp
		pos = skipSexp(toks, pos)
		// value
		vstart := pos
		pos = skipSexp(toks, pos)
		res = append(res, parseValue(toks[vstart:pos]))
		pos++ // )
	}
	return res
}

func tokenizeSexp(s string) []string {
	var toks []string
	i := 0
	for i < len(s) {
		c := s[i]
		switch {
		case c == '(' || c == ')':
			toks = append(toks, string(c))
			i++
		case c == ' ' || c == '\n' || c == '\t' || c == '\r':
			i++
		case c == '|':
			j := i + 1
			for j < len(s) && s[j] != '|' {
				j++
			}
			toks = append(toks, s[i:j+1])
			i = j + 1
		default:
			j := i
			for j < len(s) && !strings.ContainsRune("() \n\t\r", rune(s[j])) {
				j++
			}
			toks = append(toks, s[i:j])
			i = j
		}
	}
	return toks
}

func skipSexp(toks []string, pos int) int {
	if toks[pos] != "(" {
		return pos + 1
	}
	d := 0
	for {
		if toks[pos] == "(" {
			d++
		} else if toks[pos] == ")" {
			d--
		}
		pos++
		if d == 0 {
			return pos
		}
	}
}

func parseBVLit(t string) (uint64, bool) {
	if strings.HasPrefix(t, "#x") {
		v, err := strconv.ParseUint(t[2:], 16, 64)
		return v, err == nil
	}
	if strings.HasPrefix(t, "#b") {
		v, err := strconv.ParseUint(t[2:], 2, 64)
		return v, err == nil
	}
	return 0, false
}

func parseValue(toks []string) uint64 {
	if len(toks) == 1 {
		switch toks[0] {
		case "true":
			return 1
		case "false":
			return 0
		}
		v, _ := parseBVLit(toks[0])
		return v
	}
	// (_ bvN w)
	if len(toks) >= 4 && toks[1] == "_" && strings.HasPrefix(toks[2], "bv") {
		v, _ := strconv.ParseUint(toks[2][2:], 10, 64)
		return v
	}
	// (fp sign exp mant)
	if len(toks) >= 5 && toks[1] == "fp" {
		sg, _ := parseBVLit(toks[2])
		ex, _ := parseBVLit(toks[3])
		mn, _ := parseBVLit(toks[4])
		eb := bvLitWidth(toks[3])
		mb := bvLitWidth(toks[4])
		return sg<<uint(eb+mb) | ex<<uint(mb) | mn
	}
	// (_ +zero 11 53) (_ -zero ..) (_ +oo ..) (_ -oo ..) (_ NaN ..)
	if len(toks) >= 5 && toks[1] == "_" {
		eb, _ := strconv.Atoi(toks[3])
		sb, _ := strconv.Atoi(toks[4])
		mb := sb - 1
		expAll := (uint64(1)<<uint(eb) - 1) << uint(mb)
		sign := uint64(1) << uint(eb+mb)
		switch toks[2] {
		case "+zero":
			return 0
		case "-zero":
			return sign
		case "+oo":
			return expAll
		case "-oo":
			return sign | expAll
		case "NaN":
			return expAll | uint64(1)<<uint(mb-1)
		}
	}
	return 0
}

func bvLitWidth(t string) int {
	if strings.HasPrefix(t, "#x") {
		return 4 * (len(t) - 2)
	}
	if strings.HasPrefix(t, "#b") {
		return len(t) - 2
	}
	return 0
}
