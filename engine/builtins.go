package main

import (
	"fmt"
	"os"
	"go/types"
	"strings"

	"golang.org/x/tools/go/ssa"
)

func ret1(st *State, v Value) []Outcome { return []Outcome{{st: st, ret: v}} }

func (ex *Exec) callBuiltin(st *State, fv FuncV, args []Value, call *ssa.CallCommon) []Outcome {
	tt := ex.tt
	name := strings.TrimPrefix(fv.builtin, "builtin:")
	if fv.builtin == "ctxcancel" {
		ch := fv.env[0].(ChanV)
		o := st.mut(ch.obj)
		cd := *o.val.(*ChanData)
		if !cd.closed {
			cd.closedRel = st.hbRelease()
		}
		cd.closed = true
		o.val = &cd
		return ret1(st, nil)
	}
	switch name {
	case "len":
		switch x := args[0].(type) {
		case SliceV:
			return ret1(st, x.len)
		case *ArrayV:
			return ret1(st, tt.BV(uint64(len(x.e)), 64))
		case Ptr:
			n := call.Args[0].Type().Underlying().(*types.Pointer).Elem().Underlying().(*types.Array).Len()
			return ret1(st, tt.BV(uint64(n), 64))
		case MapV:
			if x.obj == 0 {
				return ret1(st, tt.BV(0, 64))
			}
			return ret1(st, tt.BV(uint64(len(st.obj(x.obj).val.(*MapData).ents)), 64))
		case ChanV:
			return ret1(st, tt.BV(0, 64))
		}
	case "cap":
		switch x := args[0].(type) {
		case SliceV:
			return ret1(st, x.cap)
		case *ArrayV:
			return ret1(st, tt.BV(uint64(len(x.e)), 64))
		}
	case "append":
		a := args[0].(SliceV)
		b := args[1].(SliceV)
		elem := call.Args[0].Type().Underlying().(*types.Slice).Elem()
		return ex.doAppend(st, a, b, elem)
	case "copy":
		return ex.doCopy(st, args[0].(SliceV), args[1].(SliceV))
	case "delete":
		var outs []Outcome
		for _, s := range ex.mapDelete(st, args[0].(MapV), args[1]) {
			outs = append(outs, Outcome{st: s})
		}
		return outs
	case "recover":
		if st.curPanic != nil && !st.curPanic.recovered {
			st.curPanic.recovered = true
			v := st.curPanic.val
			if iv, ok := v.(IfaceV); ok {
				return ret1(st, iv)
			}
			return ret1(st, IfaceV{typ: types.Typ[types.String], val: ex.constStr(st, st.curPanic.msg)})
		}
		return ret1(st, IfaceV{})
	case "print", "println":
		return ret1(st, nil)
	case "close":
		ch := args[0].(ChanV)
		o := st.mut(ch.obj)
		cd := *o.val.(*ChanData)
		if cd.closed {
			ex.obligations++
			ex.recordViolation(st, "panic", ex.pos(ex.cur), ex.cur.Parent().String(), "close of closed channel")
			return nil
		}
		cd.closed = true
		cd.closedRel = st.hbRelease()
		o.val = &cd
		return ret1(st, nil)
	case "min", "max":
		acc := args[0].(*Term)
		signed := isSigned(call.Args[0].Type())
		for _, a := range args[1:] {
			b := a.(*Term)
			var lt *Term
			if signed {
				lt = tt.Slt(b, acc)
			} else {
				lt = tt.Ult(b, acc)
			}
			if name == "max" {
				lt = tt.BNot(lt)
			}
			acc = tt.Ite(lt, b, acc)
		}
		return ret1(st, acc)
	case "ssa:wrapnilchk":
		p := args[0].(Ptr)
		if p.obj == 0 {
			ex.obligations++
			ex.recordViolation(st, "nil", "wrapnilchk", "", "value method called via nil pointer")
			return nil
		}
		return ret1(st, p)
	}
	unsup("builtin %s on %T", name, args[0])
	return nil
}

// growCap models runtime.growslice's capacity choice for go1.23 (amd64).
var sizeClasses = []int{0, 8, 16, 24, 32, 48, 64, 80, 96, 112, 128, 144, 160, 176, 192, 208, 224, 240, 256, 288, 320, 352, 384, 416, 448, 480, 512, 576, 640, 704, 768, 896, 1024, 1152, 1280, 1408, 1536, 1792, 2048, 2304, 2688, 3072, 3200, 3456, 4096, 4864, 5376, 6144, 6528, 6784, 6912, 8192, 9472, 9728, 10240, 10880, 12288, 13568, 14336, 16384, 18432, 19072, 20480, 21760, 24576, 27264, 28672, 32768}

func roundupsize(n int) int {
	if n <= 32768 {
		for _, c := range sizeClasses {
			if c >= n {
				return c
			}
		}
	}
	return (n + 8191) &^ 8191
}

func growCap(oldCap, newLen, elemSize int) int {
	newcap := oldCap
	doublecap := newcap + newcap
	if newLen > doublecap {
		newcap = newLen
	} else {
		const threshold = 256
		if oldCap < threshold {
			newcap = doublecap
		} else {
			for newcap < newLen {
				newcap += (newcap + 3*threshold) >> 2
			}
		}
	}
	if elemSize == 0 {
		return newcap
	}
	mem := roundupsize(newcap * elemSize)
	return mem / elemSize
}

func (ex *Exec) elemSize(t types.Type) int {
	s := ex.prog.ImportedPackage("unsafe")
	_ = s
	sz := types.SizesFor("gc", "amd64").Sizeof(t)
	return int(sz)
}

func (ex *Exec) doAppend(st *State, a, b SliceV, elem types.Type) []Outcome {
	tt := ex.tt
	if b.len.IsConst() && b.len.c == 0 {
		return ret1(st, a)
	}
	fits := tt.Sle(tt.Add(a.len, b.len), a.cap)
	if a.obj == 0 {
		fits = tt.False
	}
	var outs []Outcome
	sFit, sGrow := ex.split(st, fits)
	if sFit != nil {
		// in place
		s := sFit
		if a.len.IsConst() && b.len.IsConst() && a.off.IsConst() {
			base := int(a.off.c) + int(a.len.c)
			n := int(b.len.c)
			vals := make([]Value, n)
			for k := 0; k < n; k++ {
				vals[k] = ex.elemAt(s, b, tt.BV(uint64(k), 64))
			}
			ex.bulkStore(s, a, base, vals)
		} else {
			arr := ex.backing(s, a)
			start := tt.Add(a.off, a.len)
			nb := ex.capBound(s, b)
			ne := make([]Value, len(arr.e))
			for j := range arr.e {
				jt := tt.BV(uint64(j), 64)
				rel := tt.Sub(jt, start)
				in := tt.BAnd(tt.Sle(start, jt), tt.Slt(rel, b.len))
				if in.IsConst() && in.c == 0 {
					ne[j] = arr.e[j]
					continue
				}
				bv := ex.elemAtClamped(s, b, rel, nb)
				m, ok := ex.mergeValue(in, bv, arr.e[j])
				if !ok {
					unsup("append in place: unmergeable elements")
				}
				ne[j] = m
			}
			nArr := &ArrayV{e: ne}
			if arr.fn != nil && b.obj != 0 {
				if bArr := ex.backing(s, b); bArr.fn != nil || true {
					oldfn, bOff, bLen := arr.fn, b.off, b.len
					nArr.fn = func(i *Term) *Term {
						rel := tt.Sub(i, start)
						in := tt.BAnd(tt.Sle(start, i), tt.Slt(rel, bLen))
						bi := tt.Add(bOff, rel)
						var bv *Term
						if bi.IsConst() {
							k := int(sext(bi.c, 64))
							if k >= 0 && k < len(bArr.e) {
								bv, _ = bArr.e[k].(*Term)
							}
						} else if v, ok := ex.symRead(bArr, bi, nil).(*Term); ok {
							bv = v
						}
						if bv == nil {
							return oldfn(i)
						}
						return tt.Ite(in, bv, oldfn(i))
					}
				}
			}
			ex.replaceBacking(s, a, nArr)
		}
		outs = append(outs, Outcome{st: s, ret: SliceV{obj: a.obj, pre: a.pre, off: a.off, len: tt.Add(a.len, b.len), cap: a.cap}})
	}
	if sGrow != nil {
		s := sGrow
		newLen := tt.Add(a.len, b.len)
		var n int
		var capT *Term
		if newLen.IsConst() && a.cap.IsConst() {
			n = growCap(int(a.cap.c), int(newLen.c), ex.elemSize(elem))
			capT = tt.BV(uint64(n), 64)
		} else {
			na, nb := ex.capBound(s, a), ex.capBound(s, b)
			n = na + nb
			// Capacity slack chosen by the runtime is not modelled for appends of
			// symbolic length: cap == len, i.e. the next append reallocates. Content
			// and length are unaffected; only aliasing through spare capacity is.
			capT = newLen
			ex.assumes["append with symbolic length: result capacity modelled as equal to its length (no spare capacity)"] = true
		}
		e := make([]Value, n)
		z := ex.zero(elem)
		na, nb := ex.capBound(s, a), ex.capBound(s, b)
		if os.Getenv("VERIF_DEBUG") != "" {
			fmt.Fprintf(os.Stderr, "append grow n=%d na=%d nb=%d alenconst=%v terms=%d\n", n, na, nb, a.len.IsConst(), tt.next)
		}
		if a.len.IsConst() {
			al := int(a.len.c)
			for k := 0; k < n; k++ {
				switch {
				case k < al:
					e[k] = ex.elemAt(s, a, tt.BV(uint64(k), 64))
				case b.len.IsConst() && k >= al+int(b.len.c):
					e[k] = z
				case k-al < nb:
					bv := ex.elemAtClamped(s, b, tt.BV(uint64(k-al), 64), nb)
					if b.len.IsConst() {
						e[k] = bv
					} else {
						m, ok := ex.mergeValue(tt.Slt(tt.BV(uint64(k-al), 64), b.len), bv, z)
						if !ok {
							unsup("append: unmergeable")
						}
						e[k] = m
					}
				default:
					e[k] = z
				}
			}
		} else {
			for k := 0; k < n; k++ {
				kt := tt.BV(uint64(k), 64)
				var v Value = z
				rel := tt.Sub(kt, a.len)
				bv := ex.elemAtClamped(s, b, rel, nb)
				m, ok := ex.mergeValue(tt.BAnd(tt.Sle(a.len, kt), tt.Slt(rel, b.len)), bv, v)
				if !ok {
					unsup("append: unmergeable")
				}
				v = m
				if k < na {
					av := ex.elemAt(s, a, kt)
					m, ok := ex.mergeValue(tt.Slt(kt, a.len), av, v)
					if !ok {
						unsup("append: unmergeable")
					}
					v = m
				}
				e[k] = v
			}
		}
		nArr := &ArrayV{e: e}
		if _, scalar := z.(*Term); scalar && n > 0 {
			aArr, bArr := (*ArrayV)(nil), (*ArrayV)(nil)
			if a.obj != 0 {
				aArr = ex.backing(s, a)
			}
			if b.obj != 0 {
				bArr = ex.backing(s, b)
			}
			aOff, aLen, bOff := a.off, a.len, b.off
			zt := z.(*Term)
			rd := func(arr *ArrayV, idx *Term) *Term {
				if arr == nil || len(arr.e) == 0 {
					return zt
				}
				if idx.IsConst() {
					k := int(sext(idx.c, 64))
					if k < 0 || k >= len(arr.e) {
						return zt
					}
					return arr.e[k].(*Term)
				}
				return ex.symRead(arr, idx, nil).(*Term)
			}
			nArr.fn = func(i *Term) *Term {
				return tt.Ite(tt.Slt(i, aLen), rd(aArr, tt.Add(aOff, i)), rd(bArr, tt.Add(bOff, tt.Sub(i, aLen))))
			}
		}
		id := s.alloc(nil, nArr, "append")
		outs = append(outs, Outcome{st: s, ret: SliceV{obj: id, off: tt.BV(0, 64), len: newLen, cap: capT}})
	}
	return outs
}

// bulkStore writes vals into the backing array of s starting at absolute
// element index base.
func (ex *Exec) bulkStore(st *State, s SliceV, base int, vals []Value) {
	arr := ex.backing(st, s)
	ne := append([]Value(nil), arr.e...)
	if base+len(vals) > len(ne) {
		unsup("bulkStore beyond backing array")
	}
	copy(ne[base:], vals)
	ex.replaceBacking(st, s, &ArrayV{e: ne})
}

func (ex *Exec) replaceBacking(st *State, s SliceV, na *ArrayV) {
	o := st.mut(s.obj)
	o.val = ex.storePath(o.val, s.pre, na)
	if ex.storeHook != nil {
		ex.storeHook(st, s.obj)
	}
}

func (ex *Exec) doCopy(st *State, dst, src SliceV) []Outcome {
	tt := ex.tt
	n := tt.Ite(tt.Slt(src.len, dst.len), src.len, dst.len)
	if n.IsConst() && n.c == 0 {
		return ret1(st, n)
	}
	if n.IsConst() && dst.off.IsConst() {
		cnt := int(n.c)
		vals := make([]Value, cnt)
		for k := 0; k < cnt; k++ {
			vals[k] = ex.elemAt(st, src, tt.BV(uint64(k), 64))
		}
		ex.bulkStore(st, dst, int(dst.off.c), vals)
		return ret1(st, n)
	}
	arr := ex.backing(st, dst)
	ns := ex.capBound(st, src)
	ne := make([]Value, len(arr.e))
	for j := range arr.e {
		jt := tt.BV(uint64(j), 64)
		rel := tt.Sub(jt, dst.off)
		in := tt.BAnd(tt.Sle(dst.off, jt), tt.Slt(rel, n))
		if in.IsConst() && in.c == 0 {
			ne[j] = arr.e[j]
			continue
		}
		sv := ex.elemAtClamped(st, src, rel, ns)
		m, ok := ex.mergeValue(in, sv, arr.e[j])
		if !ok {
			unsup("copy: unmergeable elements")
		}
		ne[j] = m
	}
	ex.replaceBacking(st, dst, &ArrayV{e: ne})
	return ret1(st, n)
}

// ---- merging of callee outcomes ----

// mergeOutcomes merges outcomes of a pure callee whose results contain no
// object allocated during the call, grouped by result shape.
func (ex *Exec) mergeOutcomes(pre *State, outs []Outcome) []Outcome {
	type group struct {
		outs []Outcome
	}
	var groups []*group
	for _, o := range outs {
		if o.pan != nil || !ex.pureSince(pre, o.st) || ex.refsNew(pre, o.ret) {
			groups = append(groups, &group{[]Outcome{o}})
			continue
		}
		placed := false
		for _, g := range groups {
			h := g.outs[0]
			if h.pan != nil || !ex.pureSince(pre, h.st) || ex.refsNew(pre, h.ret) {
				continue
			}
			if _, ok := ex.mergeValue(ex.tt.Var("$probe", KBool, 0), o.ret, h.ret); ok && sameInputsShape(o.st, h.st) {
				g.outs = append(g.outs, o)
				placed = true
				break
			}
		}
		if !placed {
			groups = append(groups, &group{[]Outcome{o}})
		}
	}
	var res []Outcome
	for _, g := range groups {
		if len(g.outs) == 1 {
			res = append(res, g.outs[0])
			continue
		}
		// merged state: pre + disjunction of path-condition deltas
		ms := g.outs[len(g.outs)-1].st
		base := len(pre.pc)
		delta := func(s *State) *Term {
			d := ex.tt.True
			for _, p := range s.pc[base:] {
				d = ex.tt.BAnd(d, p)
			}
			return d
		}
		ret := g.outs[len(g.outs)-1].ret
		disj := delta(ms)
		maxSteps := ms.steps
		for i := len(g.outs) - 2; i >= 0; i-- {
			o := g.outs[i]
			d := delta(o.st)
			m, _ := ex.mergeValue(d, o.ret, ret)
			ret = m
			disj = ex.tt.BOr(d, disj)
			if o.st.steps > maxSteps {
				maxSteps = o.st.steps
			}
		}
		ns := ms.clone()
		ns.pc = append(append([]*Term(nil), pre.pc...), disj)
		if disj.IsConst() {
			ns.pc = append([]*Term(nil), pre.pc...)
		}
		// drop objects created by the callee (unreachable: results do not reference them)
		for id := range ns.heap {
			if id > pre.nextID {
				delete(ns.heap, id)
			}
		}
		ns.nextID = pre.nextID
		ns.steps = maxSteps
		ex.merges += len(g.outs) - 1
		res = append(res, Outcome{st: ns, ret: ret})
	}
	return res
}

func sameInputsShape(a, b *State) bool {
	if len(a.inputs) != len(b.inputs) || len(a.log) != len(b.log) || len(a.cuts) != len(b.cuts) {
		return false
	}
	for i := range a.inputs {
		if a.inputs[i].t != b.inputs[i].t || a.inputs[i].n != b.inputs[i].n {
			return false
		}
	}
	return true
}

// pureSince: no object that existed in pre was modified in s.
func (ex *Exec) pureSince(pre, s *State) bool {
	for id, o := range s.heap {
		if id > pre.nextID {
			continue
		}
		if po, ok := pre.heap[id]; ok {
			if po == o {
				continue
			}
			if ex.identical(po.val, o.val) {
				continue
			}
			return false
		}
		// object from base modified
		if bo, ok := pre.base[id]; ok && ex.identical(bo.val, o.val) {
			continue
		}
		return false
	}
	return true
}

func (ex *Exec) refsNew(pre *State, v Value) bool {
	switch x := v.(type) {
	case Ptr:
		return x.obj > pre.nextID
	case SliceV:
		return x.obj > pre.nextID
	case IfaceV:
		return x.typ != nil && ex.refsNew(pre, x.val)
	case *StructV:
		for _, f := range x.f {
			if ex.refsNew(pre, f) {
				return true
			}
		}
	case *ArrayV:
		for _, f := range x.e {
			if ex.refsNew(pre, f) {
				return true
			}
		}
	case TupleV:
		for _, f := range x {
			if ex.refsNew(pre, f) {
				return true
			}
		}
	case FuncV:
		for _, f := range x.env {
			if ex.refsNew(pre, f) {
				return true
			}
		}
	case MapV:
		return x.obj > pre.nextID
	case ChanV:
		return x.obj > pre.nextID
	}
	return false
}

// ---- error values ----

func (ex *Exec) newError(st *State, msg string) IfaceV {
	pkg := ex.prog.ImportedPackage("errors")
	t := pkg.Type("errorString").Type()
	id := st.alloc(t, &StructV{[]Value{ex.constStr(st, msg)}}, "error")
	return IfaceV{typ: types.NewPointer(t), val: Ptr{obj: id}}
}

// goValue converts a concrete executor value into a Go value for native fmt.
func (ex *Exec) goValue(st *State, v Value) (interface{}, bool) {
	switch x := v.(type) {
	case IfaceV:
		if x.typ == nil {
			return nil, true
		}
		if b, ok := x.typ.Underlying().(*types.Basic); ok {
			t, isT := x.val.(*Term)
			switch {
			case isT && t.IsConst() && b.Info()&types.IsInteger != 0:
				if b.Info()&types.IsUnsigned != 0 {
					return t.c, true
				}
				return sext(t.c, t.w), true
			case isT && t.IsConst() && t.kind == KBool:
				return t.c != 0, true
			case isT && t.IsConst() && t.kind == KFP:
				return fconst(t), true
			case b.Info()&types.IsString != 0:
				s, ok := ex.concreteStr(st, x.val.(SliceV))
				return s, ok
			}
			return nil, false
		}
		// error values and Stringers: describe
		if p, ok := x.val.(Ptr); ok && p.obj != 0 {
			if sv, ok := st.obj(p.obj).val.(*StructV); ok && len(sv.f) >= 1 {
				if s, ok := sv.f[0].(SliceV); ok && s.str {
					if cs, ok := ex.concreteStr(st, s); ok {
						return cs, true
					}
				}
			}
		}
		return nil, false
	}
	return nil, false
}

func (ex *Exec) sprintf(st *State, args []Value) (string, bool) {
	f, ok := ex.concreteStr(st, args[0].(SliceV))
	if !ok {
		return "", false
	}
	var ga []interface{}
	va := args[1].(SliceV)
	if va.obj != 0 {
		n := int(va.len.c)
		for i := 0; i < n; i++ {
			g, ok := ex.goValue(st, ex.elemAt(st, va, ex.tt.BV(uint64(i), 64)))
			if !ok {
				return "", false
			}
			ga = append(ga, g)
		}
	}
	return fmt.Sprintf(f, ga...), true
}
