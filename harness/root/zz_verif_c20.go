//go:build verif

package sqlittle

// C20 by reduction to a frame condition. If every operation (i) stores only to
// objects it allocated itself or that are reachable from its own handle, and
// (ii) never stores to package-level state, then operations on distinct
// handles commute, any interleaving of goroutines is data-race free and each
// operation returns what it returns alone. (i) is checked here with a write
// barrier on everything reachable from the other handle; (ii) is the executor's
// shared-write log over this and the other harnesses registered for C20.

import (
	sdb "github.com/alicebob/sqlittle/db"
)

//verif:shards 25
//verif:bounds two independent handles on the same file (C02 database shapes); operations Select, SelectRowid, IndexedSelect, IndexedSelectEq, Columns run on one handle while everything reachable from the other handle (and its pager) is write-protected; then the roles swap; results compared with the first run
func VH_C20_two_handles() {
	sh := sdb.VerifShard(25)
	// quick: the 2-row database; thorough: also the 4-row, interior-page one
	d, db1 := vhSetupWith(sdb.VerifTier() == 0, vhDefaultTableSQL)
	d.f.Pager.Copy = true
	h2, p2, err := d.f.OpenSecond()
	sdb.VerifNoErr(err, "second handle opens")
	db2 := &DB{db: h2}
	run := func(db *DB, op int, key int64) ([]int64, error) {
		var got []int64
		cb := func(r Row) {
			for _, v := range r {
				n, _ := v.(int64)
				got = append(got, n)
			}
		}
		var err error
		switch op {
		case 0:
			err = db.Select("t", cb, "a", "b", "rowid")
		case 1:
			var r Row
			r, err = db.SelectRowid("t", key, "a", "b")
			if r != nil {
				cb(r)
			}
		case 2:
			err = db.IndexedSelect("t", "i", cb, "a", "b")
		case 3:
			err = db.IndexedSelectEq("t", "i", Key{key}, cb, "a", "b")
		case 4:
			var cols []string
			cols, err = db.Columns("t")
			got = append(got, int64(len(cols)))
		}
		return got, err
	}
	op1, op2 := sh/5, sh%5
	k1, k2 := sdb.VerifInt64(), sdb.VerifInt64()
	// each alone (on fresh state of its own handle) ...
	sdb.VerifProtect([]interface{}{db2, p2})
	a1, e1 := run(db1, op1, k1)
	sdb.VerifUnprotect()
	sdb.VerifProtect([]interface{}{db1, d.f.Pager})
	a2, e2 := run(db2, op2, k2)
	sdb.VerifUnprotect()
	// ... and again after the other handle has been used: same answers
	sdb.VerifProtect([]interface{}{db2, p2})
	b1, f1 := run(db1, op1, k1)
	sdb.VerifUnprotect()
	sdb.VerifProtect([]interface{}{db1, d.f.Pager})
	b2, f2 := run(db2, op2, k2)
	sdb.VerifUnprotect()
	same := func(x, y []int64) bool {
		if len(x) != len(y) {
			return false
		}
		ok := true
		for i := range x {
			ok = sdb.VerifAnd(ok, x[i] == y[i])
		}
		return ok
	}
	sdb.VerifAssert((e1 == nil) == (f1 == nil) && same(a1, b1), "handle 1 returns the same result whatever handle 2 did in between")
	sdb.VerifAssert((e2 == nil) == (f2 == nil) && same(a2, b2), "handle 2 returns the same result whatever handle 1 did in between")
	sdb.VerifReach("end")
}
