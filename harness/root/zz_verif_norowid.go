//go:build verif

package sqlittle

// WITHOUT ROWID tables through the public API (C01, C02, C03): the table is an
// index b-tree in primary-key order, secondary indexes carry the primary key.

import (
	sdb "github.com/alicebob/sqlittle/db"
)

type vhWRow struct{ a, b, c int64 }

type vhWDB struct {
	f      *sdb.VerifFile
	rows   []vhWRow
	pkOrd  []int // row numbers in primary-key order (b DESC)
	idxOrd []int // row numbers in index order (c ASC)
}

var vhPerms3 = [][]int{{0, 1, 2}, {0, 2, 1}, {1, 0, 2}, {1, 2, 0}, {2, 0, 1}, {2, 1, 0}}

// writeIndexTree lays n=3 payloads out as one leaf, or as an interior page with
// the middle entry and two one-entry leaves.
func vhWriteIndexTree(f *sdb.VerifFile, root int, pls [][]byte, split bool) {
	if !split {
		f.IndexLeaf(root, pls)
		return
	}
	l, r := f.AddPage(), f.AddPage()
	f.IndexLeaf(l, pls[:1])
	f.IndexLeaf(r, pls[2:])
	f.IndexInterior(root, []int{l, r}, pls[1:2])
}

func vhBuildNoRowid() *vhWDB {
	d := &vhWDB{f: sdb.VerifNewFile(512)}
	f := d.f
	troot, iroot := f.AddPage(), f.AddPage()
	f.Master([]sdb.VerifMasterRow{
		{Typ: "table", Name: "w", Tbl: "w", Root: troot, SQL: "CREATE TABLE w (a, b, c, PRIMARY KEY (B DESC)) WITHOUT ROWID"}, // identifiers are case-insensitive
		{Typ: "index", Name: "wi", Tbl: "w", Root: iroot, SQL: "CREATE INDEX wi ON W (C)"},
	})
	for i := 0; i < 3; i++ {
		d.rows = append(d.rows, vhWRow{sdb.VerifInt64(), sdb.VerifInt64(), sdb.VerifInt64()})
	}
	d.pkOrd = vhPerms3[sdb.VerifChoice(6)]
	d.idxOrd = vhPerms3[sdb.VerifChoice(6)]
	for i := 0; i+1 < 3; i++ {
		sdb.VerifAssume(d.rows[d.pkOrd[i]].b > d.rows[d.pkOrd[i+1]].b)   // primary key DESC, unique
		sdb.VerifAssume(d.rows[d.idxOrd[i]].c < d.rows[d.idxOrd[i+1]].c) // index ASC, distinct here
	}
	var tp, ip [][]byte
	for i := 0; i < 3; i++ {
		r := d.rows[d.pkOrd[i]]
		tp = append(tp, sdb.VerifRecord(r.b, r.a, r.c)) // stored order: PK first, then the rest
		q := d.rows[d.idxOrd[i]]
		ip = append(ip, sdb.VerifRecord(q.c, q.b)) // index columns, then the primary key
	}
	vhWriteIndexTree(f, troot, tp, sdb.VerifChoice(2) == 1)
	vhWriteIndexTree(f, iroot, ip, sdb.VerifChoice(2) == 1)
	return d
}

func vhWRowIs(r Row, w vhWRow) bool {
	if len(r) != 3 {
		return false
	}
	a, ok1 := r[0].(int64)
	b, ok2 := r[1].(int64)
	c, ok3 := r[2].(int64)
	return ok1 && ok2 && ok3 && a == w.a && b == w.b && c == w.c
}

//verif:prop C02,C03,C01,C20
//verif:shards 4
//verif:bounds WITHOUT ROWID table w(a,b,c, PRIMARY KEY(b DESC)) with secondary index on c: 3 rows, all 6x6 order permutations, table and index each as one leaf or interior+2 leaves; values any int64 consistent with the orders; operations Select, PKSelect, IndexedSelect, IndexedSelectEq
func VH_C02_norowid() {
	op := sdb.VerifShard(4)
	d := vhBuildNoRowid()
	h, err := d.f.Open()
	sdb.VerifNoErr(err, "valid file opens")
	db := &DB{db: h}
	var got []Row
	cb := func(r Row) { got = append(got, r) }
	var want []vhWRow
	switch op {
	case 0:
		err = db.Select("w", cb, "a", "b", "c")
		for _, i := range d.pkOrd {
			want = append(want, d.rows[i])
		}
	case 1:
		kb := sdb.VerifInt64()
		err = db.PKSelect("w", Key{kb}, cb, "a", "b", "c")
		for _, i := range d.pkOrd {
			if d.rows[i].b == kb {
				want = append(want, d.rows[i])
			}
		}
	case 2:
		err = db.IndexedSelect("w", "wi", cb, "a", "b", "c")
		for _, i := range d.idxOrd {
			want = append(want, d.rows[i])
		}
	case 3:
		kc := sdb.VerifInt64()
		err = db.IndexedSelectEq("w", "wi", Key{kc}, cb, "a", "b", "c")
		for _, i := range d.idxOrd {
			if d.rows[i].c == kc {
				want = append(want, d.rows[i])
			}
		}
	}
	sdb.VerifNoErr(err, "operation on a WITHOUT ROWID table succeeds")
	sdb.VerifAssert(len(got) == len(want), "exactly the expected rows")
	if len(got) == len(want) {
		for i := range got {
			sdb.VerifAssert(vhWRowIs(got[i], want[i]), "rows in the expected order with the table's values")
		}
	}
	sdb.VerifReach("end")
}
