//go:build verif

package sqlittle

// WITHOUT ROWID tables through the public API (C01, C02, C03): the table is an
// index b-tree in primary-key order, secondary indexes carry the primary key.

import (
	sdb "github.com/alicebob/sqlittle/db"
)

type vhWRow struct{ a, b, c int64 }

type vhWDB struct {
	f      *sdb.VerifFile
	rows   []vhWRow
	pkOrd  []int // row numbers in primary-key order (b DESC)
	idxOrd []int // row numbers in index order (c ASC)
}

var vhPerms3 = [][]int{{0, 1, 2}, {0, 2, 1}, {1, 0, 2}, {1, 2, 0}, {2, 0, 1}, {2, 1, 0}}

// writeIndexTree lays n=3 payloads out as one leaf, or as an interior page with
// the middle entry and two one-entry leaves.
func vhWriteIndexTree(f *sdb.VerifFile, root int, pls [][]byte, split bool) {
	if !split {
		f.IndexLeaf(root, pls)
		return
	}
	l, r := f.AddPage(), f.AddPage()
	f.IndexLeaf(l, pls[:1])
	f.IndexLeaf(r, pls[2:])
	f.IndexInterior(root, []int{l, r}, pls[1:2])
}

func vhBuildNoRowid() *vhWDB {
	d := &vhWDB{f: sdb.VerifNewFile(512)}
	f := d.f
	troot, iroot := f.AddPage(), f.AddPage()
	f.Master([]sdb.VerifMasterRow{
		{Typ: "table", Name: "w", Tbl: "w", Root: troot, SQL: "CREATE TABLE w (a, b, c, PRIMARY KEY (B DESC)) WITHOUT ROWID"}, // identifiers are case-insensitive
		{Typ: "index", Name: "wi", Tbl: "w", Root: iroot, SQL: "CREATE INDEX wi ON W (C)"},
	})
	for i := 0; i < 3; i++ {
		d.rows = append(d.rows, vhWRow{sdb.VerifInt64(), sdb.VerifInt64(), sdb.VerifInt64()})
	}
	d.pkOrd = vhPerms3[sdb.VerifChoice(6)]
	d.idxOrd = vhPerms3[sdb.VerifChoice(6)]
	for i := 0; i+1 < 3; i++ {
		sdb.VerifAssume(d.rows[d.pkOrd[i]].b > d.rows[d.pkOrd[i+1]].b)   // primary key DESC, unique
		sdb.VerifAssume(d.rows[d.idxOrd[i]].c < d.rows[d.idxOrd[i+1]].c) // index ASC, distinct here
	}
	var tp, ip [][]byte
	for i := 0; i < 3; i++ {
		r := d.rows[d.pkOrd[i]]
		tp = append(tp, sdb.VerifRecord(r.b, r.a, r.c)) // stored order: PK first, then the rest
		q := d.rows[d.idxOrd[i]]
		ip = append(ip, sdb.VerifRecord(q.c, q.b)) // index columns, then the primary key
	}
	vhWriteIndexTree(f, troot, tp, sdb.VerifChoice(2) == 1)
	vhWriteIndexTree(f, iroot, ip, sdb.VerifChoice(2) == 1)
	return d
}

func vhWRowIs(r Row, w vhWRow) bool {
	if len(r) != 3 {
		return false
	}
	a, ok1 := r[0].(int64)
	b, ok2 := r[1].(int64)
	c, ok3 := r[2].(int64)
	return ok1 && ok2 && ok3 && a == w.a && b == w.b && c == w.c
}

//verif:prop C02,C03,C01,C20
//verif:shards 4
//verif:bounds WITHOUT ROWID table w(a,b,c, PRIMARY KEY(b DESC)) with secondary index on c: 3 rows, all 6x6 order permutations, table and index each as one leaf or interior+2 leaves; values any int64 consistent with the orders; operations Select, PKSelect, IndexedSelect, IndexedSelectEq
func VH_C02_norowid() {
	op := sdb.VerifShard(4)
	d := vhBuildNoRowid()
	h, err := d.f.Open()
	sdb.VerifNoErr(err, "valid file opens")
	db := &DB{db: h}
	var got []Row
	cb := func(r Row) { got = append(got, r) }
	var want []vhWRow
	switch op {
	case 0:
		err = db.Select("w", cb, "a", "b", "c")
		for _, i := range d.pkOrd {
			want = append(want, d.rows[i])
		}
	case 1:
		kb := sdb.VerifInt64()
		err = db.PKSelect("w", Key{kb}, cb, "a", "b", "c")
		for _, i := range d.pkOrd {
			if d.rows[i].b == kb {
				want = append(want, d.rows[i])
			}
		}
	case 2:
		err = db.IndexedSelect("w", "wi", cb, "a", "b", "c")
		for _, i := range d.idxOrd {
			want = append(want, d.rows[i])
		}
	case 3:
		kc := sdb.VerifInt64()
		err = db.IndexedSelectEq("w", "wi", Key{kc}, cb, "a", "b", "c")
		for _, i := range d.idxOrd {
			if d.rows[i].c == kc {
				want = append(want, d.rows[i])
			}
		}
	}
	sdb.VerifNoErr(err, "operation on a WITHOUT ROWID table succeeds")
	sdb.VerifAssert(len(got) == len(want), "exactly the expected rows")
	if len(got) == len(want) {
		for i := range got {
			sdb.VerifAssert(vhWRowIs(got[i], want[i]), "rows in the expected order with the table's values")
		}
	}
	sdb.VerifReach("end")
}

type vhW4 struct{ a, b, c, d int64 }

func vhW4Is(r Row, w vhW4) bool {
	if len(r) != 4 {
		return false
	}
	a, ok1 := r[0].(int64)
	b, ok2 := r[1].(int64)
	c, ok3 := r[2].(int64)
	d, ok4 := r[3].(int64)
	return ok1 && ok2 && ok3 && ok4 && a == w.a && b == w.b && c == w.c && d == w.d
}

// Composite primary key, and a secondary index that already contains ONE of the
// key columns: the index entry is (index columns, then only the key columns it
// lacks), so the positions of the key columns inside the entry are not simply
// "after the index columns".
//verif:prop C02,C03,C01
//verif:shards 7
//verif:bounds WITHOUT ROWID table w(a,b,c,d, PRIMARY KEY(a,b)) with index wi on (c,a) [entries (c,a,b)] and index wb on (b) [entries (b,a)]: 2 rows, both index orders, single-leaf trees; values any int64 consistent with the orders; operations Select, PKSelect with 1- and 2-column keys, IndexedSelect and IndexedSelectEq through either index with 1- and 2-column keys
func VH_C03_norowid_composite() {
	op := sdb.VerifShard(7)
	f := sdb.VerifNewFile(512)
	troot, iroot, broot := f.AddPage(), f.AddPage(), f.AddPage()
	f.Master([]sdb.VerifMasterRow{
		{Typ: "table", Name: "w", Tbl: "w", Root: troot, SQL: "CREATE TABLE w (a, b, c, d, PRIMARY KEY (a, b)) WITHOUT ROWID"},
		{Typ: "index", Name: "wi", Tbl: "w", Root: iroot, SQL: "CREATE INDEX wi ON w (c, a)"},
		{Typ: "index", Name: "wb", Tbl: "w", Root: broot, SQL: "CREATE INDEX wb ON w (b)"},
	})
	rows := [2]vhW4{
		{sdb.VerifInt64(), sdb.VerifInt64(), sdb.VerifInt64(), sdb.VerifInt64()},
		{sdb.VerifInt64(), sdb.VerifInt64(), sdb.VerifInt64(), sdb.VerifInt64()},
	}
	r0, r1 := rows[0], rows[1]
	// table order: (a, b) ascending, unique
	sdb.VerifAssume(sdb.VerifOr(r0.a < r1.a, sdb.VerifAnd(r0.a == r1.a, r0.b < r1.b)))
	// index wi order over (c, a, b); index wb order over (b, a)
	iSwap := sdb.VerifChoice(2) == 1
	bSwap := sdb.VerifChoice(2) == 1
	lessI := sdb.VerifOr(r0.c < r1.c, sdb.VerifAnd(r0.c == r1.c, sdb.VerifOr(r0.a < r1.a, sdb.VerifAnd(r0.a == r1.a, r0.b < r1.b))))
	lessB := sdb.VerifOr(r0.b < r1.b, sdb.VerifAnd(r0.b == r1.b, r0.a < r1.a))
	sdb.VerifAssume(lessI != iSwap)
	sdb.VerifAssume(lessB != bSwap)
	iOrd, bOrd := [2]int{0, 1}, [2]int{0, 1}
	if iSwap {
		iOrd = [2]int{1, 0}
	}
	if bSwap {
		bOrd = [2]int{1, 0}
	}
	var tp, ip, bp [][]byte
	for i := 0; i < 2; i++ {
		r := rows[i]
		tp = append(tp, sdb.VerifRecord(r.a, r.b, r.c, r.d)) // key columns first, then the rest
		q := rows[iOrd[i]]
		ip = append(ip, sdb.VerifRecord(q.c, q.a, q.b)) // (c, a) + the missing key column b
		p := rows[bOrd[i]]
		bp = append(bp, sdb.VerifRecord(p.b, p.a)) // (b) + the missing key column a
	}
	f.IndexLeaf(troot, tp)
	f.IndexLeaf(iroot, ip)
	f.IndexLeaf(broot, bp)
	h, err := f.Open()
	sdb.VerifNoErr(err, "valid file opens")
	db := &DB{db: h}
	var got []Row
	cb := func(r Row) { got = append(got, r) }
	var want []vhW4
	k1, k2 := sdb.VerifInt64(), sdb.VerifInt64()
	two := sdb.VerifChoice(2) == 1
	switch op {
	case 0:
		err = db.Select("w", cb, "a", "b", "c", "d")
		want = rows[:]
	case 1:
		key := Key{k1}
		if two {
			key = Key{k1, k2}
		}
		err = db.PKSelect("w", key, cb, "a", "b", "c", "d")
		for _, r := range rows {
			if r.a == k1 && (!two || r.b == k2) {
				want = append(want, r)
			}
		}
	case 2:
		err = db.IndexedSelect("w", "wi", cb, "a", "b", "c", "d")
		want = []vhW4{rows[iOrd[0]], rows[iOrd[1]]}
	case 3:
		key := Key{k1}
		if two {
			key = Key{k1, k2}
		}
		err = db.IndexedSelectEq("w", "wi", key, cb, "a", "b", "c", "d")
		for _, i := range iOrd {
			if r := rows[i]; r.c == k1 && (!two || r.a == k2) {
				want = append(want, r)
			}
		}
	case 4:
		err = db.IndexedSelect("w", "wb", cb, "a", "b", "c", "d")
		want = []vhW4{rows[bOrd[0]], rows[bOrd[1]]}
	case 5:
		err = db.IndexedSelectEq("w", "wb", Key{k1}, cb, "a", "b", "c", "d")
		for _, i := range bOrd {
			if r := rows[i]; r.b == k1 {
				want = append(want, r)
			}
		}
	case 6:
		err = db.IndexedSelectEq("w", "wi", Key{}, cb, "a", "b", "c", "d")
		want = []vhW4{rows[iOrd[0]], rows[iOrd[1]]}
	}
	sdb.VerifNoErr(err, "operation on a WITHOUT ROWID table with a composite key succeeds")
	sdb.VerifAssert(len(got) == len(want), "exactly the expected rows")
	if len(got) == len(want) {
		for i := range got {
			sdb.VerifAssert(vhW4Is(got[i], want[i]), "rows in the expected order with the table's values")
		}
	}
	sdb.VerifReach("end")
}

// C12 on WITHOUT ROWID tables: the k-th page read fails (k symbolic, one-shot)
// during Select, PKSelect, IndexedSelect or IndexedSelectEq — the secondary
// index paths look every row up in the table b-tree from inside the index
// scan's callback, so a failure there has to travel out through two layers.
//verif:prop C12
//verif:shards 4
//verif:bounds the WITHOUT ROWID database of VH_C02_norowid (3 rows, 6x6 orders, leaf or interior+2 leaves for table and index); operations Select, PKSelect, IndexedSelect, IndexedSelectEq (full key or empty key); failing page read k = any ordinal
func VH_C12_norowid_fault() {
	op := sdb.VerifShard(4)
	d := vhBuildNoRowid()
	h, err := d.f.Open()
	sdb.VerifNoErr(err, "valid file opens")
	db := &DB{db: h}
	k := sdb.VerifInt()
	sdb.VerifAssume(k >= 1)
	base := d.f.Pager.Reads
	d.f.Pager.FailAt = base + k
	var got []Row
	cb := func(r Row) { got = append(got, r) }
	var full []vhWRow
	switch op {
	case 0:
		err = db.Select("w", cb, "a", "b", "c")
		for _, i := range d.pkOrd {
			full = append(full, d.rows[i])
		}
	case 1:
		kb := sdb.VerifInt64()
		err = db.PKSelect("w", Key{kb}, cb, "a", "b", "c")
		for _, i := range d.pkOrd {
			if d.rows[i].b == kb {
				full = append(full, d.rows[i])
			}
		}
	case 2:
		err = db.IndexedSelect("w", "wi", cb, "a", "b", "c")
		for _, i := range d.idxOrd {
			full = append(full, d.rows[i])
		}
	case 3:
		var key Key
		kc := sdb.VerifInt64()
		all := sdb.VerifBool()
		if !all {
			key = Key{kc}
		}
		err = db.IndexedSelectEq("w", "wi", key, cb, "a", "b", "c")
		for _, i := range d.idxOrd {
			if all || d.rows[i].c == kc {
				full = append(full, d.rows[i])
			}
		}
	}
	if d.f.Pager.Reads-base >= k {
		sdb.VerifAssert(err != nil, "a failed page read is reported")
		sdb.VerifReach("faulted")
	} else {
		sdb.VerifNoErr(err, "no fault, no error")
		sdb.VerifAssert(len(got) == len(full), "complete result without fault")
	}
	sdb.VerifAssert(len(got) <= len(full), "never more rows than the fault-free result")
	if len(got) <= len(full) {
		for i := range got {
			sdb.VerifAssert(vhWRowIs(got[i], full[i]), "delivered rows are a correct prefix")
		}
	}
	sdb.VerifReach("end")
}
