//go:build verif

package sqlittle

import sdb "github.com/alicebob/sqlittle/db"

// VerifWrap builds a DB around a low-level handle (for driver harnesses).
func VerifWrap(d *sdb.Database) *DB { return &DB{db: d} }
