//go:build verif

package sqlittle

// C08: a long-lived handle sees each committed state. Writers are modelled by
// their commit contract (file-format spec 1.3.5/1.3.9): the change counter
// differs from the previous one whenever any page differs, the schema cookie
// whenever sqlite_master differs. The pager copies pages like the real one.

import (
	sdb "github.com/alicebob/sqlittle/db"
)

func vhSelectAB(db *DB) ([][2]int64, error) {
	var got [][2]int64
	err := db.Select("t", func(r Row) {
		a, _ := r[0].(int64)
		b, _ := r[1].(int64)
		got = append(got, [2]int64{a, b})
	}, "a", "b")
	return got, err
}

//verif:bounds one table of 1..2 rows in a leaf; history read / commit / read / read / commit(schema change) / read / VACUUM to 1024-byte pages / read; commits rewrite the leaf with fresh symbolic values and may change the row count; change counter and schema cookie symbolic under the commit contract
func VH_C08_history() {
	f := sdb.VerifNewFile(512)
	f.Pager.Copy = true
	root := f.AddPage()
	f.Master([]sdb.VerifMasterRow{{Typ: "table", Name: "t", Tbl: "t", Root: root, SQL: "CREATE TABLE t (a, b)"}})
	write := func(n int) [][2]int64 {
		var rows [][2]int64
		var ids []int64
		var pls [][]byte
		for i := 0; i < n; i++ {
			a, b := sdb.VerifInt64(), sdb.VerifInt64()
			rows = append(rows, [2]int64{a, b})
			ids = append(ids, int64(i+1))
			pls = append(pls, sdb.VerifRecord(a, b))
		}
		f.TableLeaf(root, ids, 1, pls)
		return rows
	}
	same := func(got, want [][2]int64) bool {
		if len(got) != len(want) {
			return false
		}
		ok := true
		for i := range got {
			ok = sdb.VerifAnd(ok, sdb.VerifAnd(got[i][0] == want[i][0], got[i][1] == want[i][1]))
		}
		return ok
	}
	v1 := write(1 + sdb.VerifChoice(2))
	c1, k1 := sdb.VerifUint32(), sdb.VerifUint32()
	f.SetCounters(c1, k1)
	h, err := f.Open()
	sdb.VerifNoErr(err, "valid file opens")
	db := &DB{db: h}
	r1, err := vhSelectAB(db)
	sdb.VerifNoErr(err, "first read")
	sdb.VerifAssert(same(r1, v1), "first read returns the content at that time")

	// a foreign connection commits: new rows, counter must differ
	v2 := write(1 + sdb.VerifChoice(2))
	c2 := sdb.VerifUint32()
	sdb.VerifAssume(c2 != c1)
	f.SetCounters(c2, k1)
	r2, err := vhSelectAB(db)
	sdb.VerifNoErr(err, "read after a commit")
	sdb.VerifAssert(same(r2, v2), "read after a commit returns the committed content, not the cached one")

	// no write in between: identical result
	r3, err := vhSelectAB(db)
	sdb.VerifNoErr(err, "repeated read")
	sdb.VerifAssert(same(r3, v2), "repeated read without a write is identical")

	// schema change: the columns swap names; cookie and counter differ
	f.Master([]sdb.VerifMasterRow{{Typ: "table", Name: "t", Tbl: "t", Root: root, SQL: "CREATE TABLE t (b, a)"}})
	c3, k3 := sdb.VerifUint32(), sdb.VerifUint32()
	sdb.VerifAssume(c3 != c2 && k3 != k1)
	f.SetCounters(c3, k3)
	r4, err := vhSelectAB(db)
	sdb.VerifNoErr(err, "read after a schema change")
	var swapped [][2]int64
	for _, r := range v2 {
		swapped = append(swapped, [2]int64{r[1], r[0]})
	}
	sdb.VerifAssert(same(r4, swapped), "read after a schema change uses the new definition")

	// VACUUM with a new page size: the whole file is rewritten with 1024-byte pages
	g := sdb.VerifNewFile(1024)
	groot := g.AddPage()
	g.Master([]sdb.VerifMasterRow{{Typ: "table", Name: "t", Tbl: "t", Root: groot, SQL: "CREATE TABLE t (a, b)"}})
	var ids []int64
	var pls [][]byte
	var v5 [][2]int64
	for i := 0; i < 2; i++ {
		a, b := sdb.VerifInt64(), sdb.VerifInt64()
		v5 = append(v5, [2]int64{a, b})
		ids = append(ids, int64(i+1))
		pls = append(pls, sdb.VerifRecord(a, b))
	}
	g.TableLeaf(groot, ids, 1, pls)
	c5, k5 := sdb.VerifUint32(), sdb.VerifUint32()
	sdb.VerifAssume(c5 != c3 && k5 != k3)
	g.SetCounters(c5, k5)
	f.Pager.IDs, f.Pager.Bufs = g.Pager.IDs, g.Pager.Bufs // same handle, same pager: the file changed underneath
	r5, err := vhSelectAB(db)
	sdb.VerifNoErr(err, "read after a page-size changing VACUUM")
	sdb.VerifAssert(same(r5, v5), "read after a page-size changing VACUUM uses the new page size")
	sdb.VerifReach("end")
}
