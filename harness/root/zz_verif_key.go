//go:build verif

package sqlittle

import (
	sdb "github.com/alicebob/sqlittle/db"
	"github.com/alicebob/sqlittle/sql"
)

// C03 obligation B: asDbKey gives every key column the direction and collation
// of the index column and converts Go values to the five storage classes.
//verif:prop C03,C20
//verif:shards 10
//verif:bounds keys of 0..3 values over 12 Go kinds (nil,int64,float64,string,[]byte,int,uint,int32,uint32,float32,bool,unsupported) against index definitions of 2 columns with DESC / COLLATE (nocase, NOCASE, rtrim, unknown) per column
func VH_C03_dbkey() {
	colls := [...]string{"", "nocase", "NOCASE", "rtrim", "klingon"}
	var cols [2]sdb.IndexColumn
	sh := sdb.VerifShard(10)
	for i := range cols {
		cols[i].Column = "c"
		d, c := sdb.VerifChoice(2), 0
		if i == 0 {
			d, c = sh%2, sh/2
		} else {
			c = sdb.VerifChoice(len(colls))
		}
		if d == 1 {
			cols[i].SortOrder = sql.Desc
		}
		cols[i].Collate = colls[c]
	}
	n := sdb.VerifChoice(4)
	key := make(Key, n)
	kinds := make([]int, n)
	var want [3]interface{}
	for i := 0; i < n; i++ {
		kinds[i] = 1
		if i < 2 {
			kinds[i] = sdb.VerifChoice(12) // a third value is one too many whatever its kind
		}
		v := sdb.VerifInt64()
		switch kinds[i] {
		case 0:
			key[i], want[i] = nil, nil
		case 1:
			key[i], want[i] = v, v
		case 2:
			f := sdb.VerifFloat64()
			key[i], want[i] = f, f
		case 3:
			key[i], want[i] = "s", "s"
		case 4:
			b := []byte{1, 2}
			key[i], want[i] = b, b
		case 5:
			key[i], want[i] = int(v), v
		case 6:
			key[i], want[i] = uint(v), int64(uint(v))
		case 7:
			key[i], want[i] = int32(v), int64(int32(v))
		case 8:
			key[i], want[i] = uint32(v), int64(uint32(v))
		case 9:
			f := float32(sdb.VerifInt32())
			key[i], want[i] = f, float64(f)
		case 10:
			b := v&1 == 1
			key[i] = b
			if b {
				want[i] = int64(1)
			} else {
				want[i] = int64(0)
			}
		case 11:
			key[i] = uint8(v)
		}
	}
	dbk, err := asDbKey(key, cols[:])
	bad := n > 2
	for i := 0; i < n && i < 2; i++ {
		if kinds[i] == 11 || cols[i].Collate == "klingon" {
			bad = true
		}
	}
	if bad {
		sdb.VerifAssert(err != nil, "too many key columns, an unsupported Go type or an unknown collation is an error")
		sdb.VerifReach("rejected")
		return
	}
	sdb.VerifNoErr(err, "key accepted")
	sdb.VerifAssert(len(dbk) == n, "one db key column per key value")
	for i := 0; i < n && i < len(dbk); i++ {
		sdb.VerifAssert(dbk[i].Desc == (cols[i].SortOrder == sql.Desc), "DESC taken from the index column")
		wc := cols[i].Collate
		if wc == "NOCASE" {
			wc = "nocase"
		}
		sdb.VerifAssert(dbk[i].Collate == wc, "collation taken from the index column (lower-cased)")
		sdb.VerifAssert(vhSameStored(dbk[i].V, want[i]) || kinds[i] == 2 || kinds[i] == 9, "value converted to its storage class")
		if kinds[i] == 2 || kinds[i] == 9 {
			_, isF := dbk[i].V.(float64)
			sdb.VerifAssert(isF, "floats stay REAL")
		}
	}
	sdb.VerifReach("end")
}
