//go:build verif

package sqlittle

// C04 through the public API: SelectRowid (and PKSelect on a rowid-alias
// table) for every int64 rowid returns the row a full Select reports for that
// rowid — rowid column included — or no row and no error.

import (
	sdb "github.com/alicebob/sqlittle/db"
)

//verif:prop C04
//verif:bounds C02 database shapes (2 rows in one leaf, or 4 rows over interior + 2 leaves; rowids and values any int64); table t(a, b) asked for a, b, rowid, or t(a, b, id INTEGER PRIMARY KEY) asked for a, b, id; operations SelectRowid and (alias table) PKSelect; the requested rowid any int64
func VH_C04_select_rowid() {
	alias := sdb.VerifBool()
	tableSQL, idcol := vhDefaultTableSQL, "rowid"
	if alias {
		tableSQL, idcol = "CREATE TABLE t (a, b, id INTEGER PRIMARY KEY)", "id"
	}
	d, db := vhSetupWith(false, tableSQL)
	var scan []Row
	sdb.VerifNoErr(db.Select("t", func(r Row) { scan = append(scan, r) }, "a", "b", idcol), "full scan succeeds")
	sdb.VerifAssert(len(scan) == len(d.rows), "full scan reports every row")
	want := sdb.VerifInt64()
	var got Row
	var err error
	if alias && sdb.VerifBool() {
		n := 0
		err = db.PKSelect("t", Key{want}, func(r Row) { got = r; n++ }, "a", "b", idcol)
		sdb.VerifAssert(n <= 1, "at most one row per rowid")
	} else {
		got, err = db.SelectRowid("t", want, "a", "b", idcol)
	}
	sdb.VerifNoErr(err, "rowid lookup: no error, present or absent")
	present := false
	for i, r := range d.rows {
		if r.rowid == want {
			present = true
			sdb.VerifAssert(got != nil && vhRowIs(got, r), "present rowid: the stored row, rowid column included")
			if got != nil && len(scan) == len(d.rows) {
				sdb.VerifAssert(vhRowIs(scan[i], r) && len(got) == len(scan[i]), "same values as the full scan reports")
			}
			sdb.VerifReach("found")
		}
	}
	if !present {
		sdb.VerifAssert(got == nil, "absent rowid: no row")
		sdb.VerifReach("absent")
	}
	sdb.VerifReach("end")
}
