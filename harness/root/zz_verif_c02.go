//go:build verif

package sqlittle

// C02 / C03 / C12 through the public API, from page bytes.

import (
	sdb "github.com/alicebob/sqlittle/db"
)

// vhIndexedDB: rowid table t(a, b) with n rows and an index on b (ASC or
// DESC); everything symbolic except the layout. Layout: page 2 table leaf,
// page 3 index leaf (or, when split, table = interior 2 -> leaves 4,5 and
// index = interior 3 -> leaves 6,7 with one entry in the interior page).
type vhIdxDB struct {
	f     *sdb.VerifFile
	rows  []vhRow  // in rowid order
	order []int    // row numbers in index order
	desc  bool
}

func vhIndexLess(a, b vhRow, desc bool) bool {
	c := sdb.VerifIte(a.vals[1] < b.vals[1], -1, sdb.VerifIte(a.vals[1] > b.vals[1], 1, 0))
	if desc {
		c = -c
	}
	return sdb.VerifOr(c < 0, sdb.VerifAnd(c == 0, a.rowid < b.rowid))
}

// n rows; the index order is a permutation chosen by the harness (order[i] =
// row number of the i-th index entry) and ASSUMED to be the sorted order, so the
// solver ranges over all value assignments consistent with it.
const vhDefaultTableSQL = "CREATE TABLE t (a, b)"

func vhBuildIndexed(n int, split bool, desc bool, perm []int, tableSQL string) *vhIdxDB {
	d := &vhIdxDB{f: sdb.VerifNewFile(512), desc: desc, order: perm}
	f := d.f
	troot, iroot := f.AddPage(), f.AddPage()
	sqlIdx := "CREATE INDEX i ON t (b)"
	if desc {
		sqlIdx = "CREATE INDEX i ON t (b DESC)"
	}
	f.Master([]sdb.VerifMasterRow{
		{Typ: "table", Name: "t", Tbl: "t", Root: troot, SQL: tableSQL},
		{Typ: "index", Name: "i", Tbl: "t", Root: iroot, SQL: sqlIdx},
	})
	leaves := 1
	if split {
		leaves = 2
	}
	per := n / leaves
	d.rows = vhTable(f, troot, leaves, per, 2, 0, false)
	for i := 0; i+1 < n; i++ {
		sdb.VerifAssume(vhIndexLess(d.rows[perm[i]], d.rows[perm[i+1]], desc))
	}
	ent := func(i int) []byte {
		r := d.rows[perm[i]]
		return sdb.VerifRecord(r.vals[1], r.rowid)
	}
	if !split {
		var pls [][]byte
		for i := 0; i < n; i++ {
			pls = append(pls, ent(i))
		}
		f.IndexLeaf(iroot, pls)
	} else {
		// n entries: left leaf gets the first (n-1)/2, one in the interior page, rest right
		l, r := f.AddPage(), f.AddPage()
		nl := (n - 1) / 2
		var lp, rp [][]byte
		for i := 0; i < nl; i++ {
			lp = append(lp, ent(i))
		}
		for i := nl + 1; i < n; i++ {
			rp = append(rp, ent(i))
		}
		f.IndexLeaf(l, lp)
		f.IndexLeaf(r, rp)
		f.IndexInterior(iroot, []int{l, r}, [][]byte{ent(nl)})
	}
	return d
}

var vhPerms2 = [][]int{{0, 1}, {1, 0}}
var vhPerms4 = [][]int{{0, 1, 2, 3}, {3, 2, 1, 0}, {1, 3, 0, 2}, {2, 0, 3, 1}, {0, 2, 1, 3}, {3, 0, 2, 1}}

func vhSetup() (*vhIdxDB, *DB) { return vhSetupWith(false, vhDefaultTableSQL) }

// vhSetupWith: smallOnly restricts to the 2-row shape (harnesses that run
// several operations per path in the quick tier); tableSQL is t's definition.
func vhSetupWith(smallOnly bool, tableSQL string) (*vhIdxDB, *DB) {
	var d *vhIdxDB
	desc := sdb.VerifBool()
	shape := 0
	if !smallOnly {
		shape = sdb.VerifChoice(2)
	}
	switch shape {
	case 0:
		d = vhBuildIndexed(2, false, desc, vhPerms2[sdb.VerifChoice(2)], tableSQL)
	default:
		d = vhBuildIndexed(4, true, desc, vhPerms4[sdb.VerifChoice(len(vhPerms4))], tableSQL)
	}
	h, err := d.f.Open()
	sdb.VerifNoErr(err, "valid file opens")
	return d, &DB{db: h}
}

func vhRowIs(r Row, want vhRow) bool {
	if len(r) != 3 {
		return false
	}
	a, ok1 := r[0].(int64)
	b, ok2 := r[1].(int64)
	id, ok3 := r[2].(int64)
	return ok1 && ok2 && ok3 && a == want.vals[0] && b == want.vals[1] && id == want.rowid
}

//verif:bounds rowid table t(a,b) with index on b (ASC/DESC): 2 rows in single leaves, or 4 rows over interior+2 leaves for table and index (one entry in the interior index page); 2 resp. 6 index-order permutations; values any int64 consistent with the chosen index order
//verif:prop C02,C20
func VH_C02_indexed_select() {
	d, db := vhSetup()
	var got []Row
	err := db.IndexedSelect("t", "i", func(r Row) { got = append(got, r) }, "a", "b", "rowid")
	sdb.VerifNoErr(err, "indexed select succeeds")
	sdb.VerifAssert(len(got) == len(d.rows), "every indexed row exactly once")
	if len(got) == len(d.rows) {
		for i := range got {
			sdb.VerifAssert(vhRowIs(got[i], d.rows[d.order[i]]), "rows in index order with the table's values")
		}
	}
	sdb.VerifReach("end")
}

//verif:bounds as VH_C02_indexed_select; key = any int64 for column b (prefix length 1) or the empty key
func VH_C03_indexed_eq() {
	d, db := vhSetup()
	var key Key
	kb := sdb.VerifInt64()
	if sdb.VerifBool() {
		key = Key{kb}
	}
	var got []Row
	err := db.IndexedSelectEq("t", "i", key, func(r Row) { got = append(got, r) }, "a", "b", "rowid")
	sdb.VerifNoErr(err, "indexed equality select succeeds")
	var want []vhRow
	for _, i := range d.order {
		if len(key) == 0 || d.rows[i].vals[1] == kb {
			want = append(want, d.rows[i])
		}
	}
	sdb.VerifAssert(len(got) == len(want), "exactly the rows whose indexed column equals the key")
	if len(got) == len(want) {
		for i := range got {
			sdb.VerifAssert(vhRowIs(got[i], want[i]), "matching rows in index order")
		}
	}
	sdb.VerifReach("end")
}

// C12: the k-th page read fails (k symbolic): the operation must return an
// error, having delivered a prefix of the fault-free result.
//verif:bounds as VH_C02_indexed_select; operations Select / SelectRowid / IndexedSelect / IndexedSelectEq; the failing page read k = any ordinal
func VH_C12_fault() {
	d, db := vhSetup()
	op := sdb.VerifChoice(4)
	k := sdb.VerifInt()
	sdb.VerifAssume(k >= 1)
	d.f.Pager.FailAt = d.f.Pager.Reads + k
	base := d.f.Pager.Reads
	var got []Row
	var err error
	cb := func(r Row) { got = append(got, r) }
	var full []vhRow
	switch op {
	case 0:
		err = db.Select("t", cb, "a", "b", "rowid")
		full = d.rows
	case 1:
		var r Row
		want := d.rows[0]
		r, err = db.SelectRowid("t", want.rowid, "a", "b", "rowid")
		if r != nil {
			got = append(got, r)
		}
		full = []vhRow{want}
	case 2:
		err = db.IndexedSelect("t", "i", cb, "a", "b", "rowid")
		for _, i := range d.order {
			full = append(full, d.rows[i])
		}
	case 3:
		err = db.IndexedSelectEq("t", "i", Key{}, cb, "a", "b", "rowid")
		for _, i := range d.order {
			full = append(full, d.rows[i])
		}
	}
	faulted := d.f.Pager.Reads-base >= k
	if faulted {
		sdb.VerifAssert(err != nil, "a failed page read is reported")
		sdb.VerifReach("faulted")
	} else {
		sdb.VerifNoErr(err, "no fault, no error")
		sdb.VerifAssert(len(got) == len(full), "complete result without fault")
	}
	sdb.VerifAssert(len(got) <= len(full), "never more rows than the fault-free result")
	if len(got) <= len(full) {
		for i := range got {
			sdb.VerifAssert(vhRowIs(got[i], full[i]), "delivered rows are a correct prefix")
		}
	}
	sdb.VerifReach("end")
}

// Expression and partial indexes: the reader does not evaluate the expression or
// the WHERE clause — it follows the entries that are there. An expression index
// stores one arbitrary value per row; a partial index has entries for a subset
// of the rows only.
//verif:prop C02,C03
//verif:shards 6
//verif:bounds rowid table t(a,b) of 3 rows (one leaf); index i either ON t (a + b) [one stored value per row, any int64] or ON t (b) WHERE b > 0 [entries for any of the 8 subsets of the rows]; all 6 index orders; IndexedSelect returns exactly the covered rows in index order with the table's values, IndexedSelectEq the covered rows whose stored value equals any int64 key
func VH_C02_partial_expression() {
	perm := vhPerms3[sdb.VerifShard(6)]
	f := sdb.VerifNewFile(512)
	troot, iroot := f.AddPage(), f.AddPage()
	partial := sdb.VerifBool()
	sqlIdx := "CREATE INDEX i ON t (a + b)"
	if partial {
		sqlIdx = "CREATE INDEX i ON t (b) WHERE b > 0"
	}
	f.Master([]sdb.VerifMasterRow{
		{Typ: "table", Name: "t", Tbl: "t", Root: troot, SQL: vhDefaultTableSQL},
		{Typ: "index", Name: "i", Tbl: "t", Root: iroot, SQL: sqlIdx},
	})
	rows := vhTable(f, troot, 1, 3, 2, 0, false)
	// stored index value per row: b for the partial index, anything for the expression
	var stored [3]int64
	covered := [3]bool{true, true, true}
	if partial {
		mask := sdb.VerifChoice(8)
		for i := 0; i < 3; i++ {
			stored[i] = rows[i].vals[1]
			covered[i] = mask&(1<<uint(i)) != 0
		}
	} else {
		for i := 0; i < 3; i++ {
			stored[i] = sdb.VerifInt64()
		}
	}
	var order []int // covered rows in index order
	for _, i := range perm {
		if covered[i] {
			order = append(order, i)
		}
	}
	for k := 0; k+1 < len(order); k++ {
		x, y := order[k], order[k+1]
		sdb.VerifAssume(sdb.VerifOr(stored[x] < stored[y], sdb.VerifAnd(stored[x] == stored[y], rows[x].rowid < rows[y].rowid)))
	}
	var pls [][]byte
	for _, i := range order {
		pls = append(pls, sdb.VerifRecord(stored[i], rows[i].rowid))
	}
	f.IndexLeaf(iroot, pls)
	h, err := f.Open()
	sdb.VerifNoErr(err, "valid file opens")
	db := &DB{db: h}
	var got []Row
	cb := func(r Row) { got = append(got, r) }
	var want []vhRow
	if sdb.VerifBool() {
		err = db.IndexedSelect("t", "i", cb, "a", "b", "rowid")
		for _, i := range order {
			want = append(want, rows[i])
		}
	} else {
		k := sdb.VerifInt64()
		err = db.IndexedSelectEq("t", "i", Key{k}, cb, "a", "b", "rowid")
		for _, i := range order {
			if stored[i] == k {
				want = append(want, rows[i])
			}
		}
	}
	sdb.VerifNoErr(err, "select through an expression / partial index succeeds")
	sdb.VerifAssert(len(got) == len(want), "exactly the covered rows")
	if len(got) == len(want) {
		for i := range got {
			sdb.VerifAssert(vhRowIs(got[i], want[i]), "covered rows in index order with the table's values")
		}
	}
	sdb.VerifReach("end")
}

// vhIntIsReal: the integer i and the real f are the same number (exactly; not
// after rounding i to float64).
func vhIntIsReal(i int64, f float64) bool {
	if !(f >= -9223372036854775808.0 && f < 9223372036854775808.0) {
		return false // out of the int64 range, infinities, NaN
	}
	t := int64(f)
	return sdb.VerifAnd(float64(t) == f, t == i)
}

// Keys of another numeric class: the indexed column holds integers, the key is a
// REAL. SQLite compares the two numerically and exactly: only an integral key
// equal to the stored integer matches (never one that merely truncates or rounds
// to it).
//verif:bounds rowid table t(a,b), 2 rows, index on b (ASC/DESC), both index orders; key = any float64 (NaN excluded); IndexedSelectEq returns exactly the rows whose integer b is numerically equal to the key
func VH_C03_real_key() {
	d, db := vhSetupWith(true, vhDefaultTableSQL)
	kf := sdb.VerifFloat64()
	sdb.VerifAssume(kf == kf)
	var got []Row
	err := db.IndexedSelectEq("t", "i", Key{kf}, func(r Row) { got = append(got, r) }, "a", "b", "rowid")
	sdb.VerifNoErr(err, "indexed equality select with a real key succeeds")
	var want []vhRow
	for _, i := range d.order {
		if vhIntIsReal(d.rows[i].vals[1], kf) {
			want = append(want, d.rows[i])
		}
	}
	sdb.VerifAssert(len(got) == len(want), "exactly the rows whose integer equals the real key")
	if len(got) == len(want) {
		for i := range got {
			sdb.VerifAssert(vhRowIs(got[i], want[i]), "matching rows in index order")
		}
	}
	sdb.VerifReach("end")
}
