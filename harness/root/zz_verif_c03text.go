//go:build verif

package sqlittle

// C03 through the public API with TEXT keys: the collation of the lookup comes
// from the index definition (own COLLATE, or inherited from the column).

import (
	sdb "github.com/alicebob/sqlittle/db"
)

// vhNorm1: sort key of a one-byte ASCII string under BINARY / NOCASE / RTRIM
// (SQLite: NOCASE folds A-Z to lower case, RTRIM ignores trailing spaces so " "
// equals the empty string and sorts before every other string).
func vhNorm1(c byte, coll int) int {
	switch coll {
	case 1:
		return sdb.VerifIte(sdb.VerifAnd(c >= 'A', c <= 'Z'), int(c)+32, int(c))
	case 2:
		return sdb.VerifIte(c == ' ', -1, int(c))
	}
	return int(c)
}

//verif:prop C03
//verif:shards 6
//verif:bounds rowid table t(a TEXT, b) of 3 rows in one leaf with index i on a; a = any one-byte ASCII text, b and rowids any int64; collation BINARY / NOCASE / RTRIM declared on the column (inherited by the index) or on the index column; all 6 index orders; IndexedSelectEq with any one-byte ASCII string key (also given as []byte: a blob never equals a text), IndexedSelect in full
func VH_C03_text_key_api() {
	coll := sdb.VerifChoice(3)
	names := [...]string{"BINARY", "NOCASE", "RTRIM"}
	tableSQL, idxSQL := "CREATE TABLE t (a TEXT, b)", "CREATE INDEX i ON t (a)"
	if coll > 0 {
		if sdb.VerifBool() {
			tableSQL = "CREATE TABLE t (a TEXT COLLATE " + names[coll] + ", b)"
		} else {
			idxSQL = "CREATE INDEX i ON t (a COLLATE " + names[coll] + ")"
		}
	}
	perm := vhPerms3[sdb.VerifShard(6)]
	f := sdb.VerifNewFile(512)
	troot, iroot := f.AddPage(), f.AddPage()
	f.Master([]sdb.VerifMasterRow{
		{Typ: "table", Name: "t", Tbl: "t", Root: troot, SQL: tableSQL},
		{Typ: "index", Name: "i", Tbl: "t", Root: iroot, SQL: idxSQL},
	})
	var (
		as  [3]string
		bs  [3]int64
		ids []int64
		pls [][]byte
	)
	for i := 0; i < 3; i++ {
		as[i] = sdb.VerifString(1)
		sdb.VerifAssume(as[i][0] < 0x80)
		bs[i] = sdb.VerifInt64()
		id := sdb.VerifInt64()
		if i > 0 {
			sdb.VerifAssume(ids[i-1] < id)
		}
		ids = append(ids, id)
		pls = append(pls, sdb.VerifRecord(as[i], bs[i]))
	}
	f.TableLeaf(troot, ids, 9, pls)
	for k := 0; k+1 < 3; k++ {
		x, y := perm[k], perm[k+1]
		nx, ny := vhNorm1(as[x][0], coll), vhNorm1(as[y][0], coll)
		sdb.VerifAssume(sdb.VerifOr(nx < ny, sdb.VerifAnd(nx == ny, ids[x] < ids[y])))
	}
	var ents [][]byte
	for _, i := range perm {
		ents = append(ents, sdb.VerifRecord(as[i], ids[i]))
	}
	f.IndexLeaf(iroot, ents)
	h, err := f.Open()
	sdb.VerifNoErr(err, "valid file opens")
	db := &DB{db: h}
	var got []Row
	cb := func(r Row) { got = append(got, r) }
	var want []int
	switch sdb.VerifChoice(3) {
	case 0:
		err = db.IndexedSelect("t", "i", cb, "a", "b", "rowid")
		want = perm
	case 1:
		ks := sdb.VerifString(1)
		sdb.VerifAssume(ks[0] < 0x80)
		err = db.IndexedSelectEq("t", "i", Key{ks}, cb, "a", "b", "rowid")
		nk := vhNorm1(ks[0], coll)
		for _, i := range perm {
			if vhNorm1(as[i][0], coll) == nk {
				want = append(want, i)
			}
		}
		sdb.VerifReach("text key")
	default:
		kb := sdb.VerifBytes(1)
		err = db.IndexedSelectEq("t", "i", Key{kb}, cb, "a", "b", "rowid")
		sdb.VerifReach("blob key")
	}
	sdb.VerifNoErr(err, "select with a text key succeeds")
	sdb.VerifAssert(len(got) == len(want), "exactly the rows equal to the key under the index's collation")
	if len(got) == len(want) {
		for k, i := range want {
			r := got[k]
			ok := len(r) == 3
			if ok {
				a, ok1 := r[0].(string)
				b, ok2 := r[1].(int64)
				id, ok3 := r[2].(int64)
				ok = ok1 && ok2 && ok3 && a == as[i] && b == bs[i] && id == ids[i]
			}
			sdb.VerifAssert(ok, "matching rows in index order with the table's values")
		}
	}
	sdb.VerifReach("end")
}
