//go:build verif

package sqlittle

// C05 at the schema / row-mapping stages: definitions and index records a
// hostile file can contain although SQLite itself would never write them.

import (
	sdb "github.com/alicebob/sqlittle/db"
)

var vhHostileSQL = [...]string{
	"CREATE TABLE t (a, PRIMARY KEY (nosuch))",
	"CREATE TABLE t (a, UNIQUE (nosuch))",
	"CREATE TABLE t (a, b, PRIMARY KEY (a, nosuch)) WITHOUT ROWID",
	"CREATE TABLE t (a, b) WITHOUT ROWID",
	"CREATE TABLE t (a, PRIMARY KEY (a + 1))",
	"CREATE TABLE t (a, a, PRIMARY KEY (a))",
	"CREATE TABLE t (a INTEGER PRIMARY KEY, b INTEGER PRIMARY KEY)",
	"CREATE TABLE t (a, FOREIGN KEY (nosuch) REFERENCES u (x))",
	"CREATE TABLE other (a)",
	"CREATE INDEX t ON t (a)",
	"SELECT a FROM t",
	// names that are equal under Unicode simple case folding but not under
	// ToLower (U+017F long s, U+212A Kelvin sign)
	"CREATE TABLE t (s, PRIMARY KEY (\u017f))",
	"CREATE TABLE t (k, b, UNIQUE (b, \u212a))",
	"CREATE TABLE t (a INTEGER, a, PRIMARY KEY (a)) WITHOUT ROWID",
	"CREATE TABLE t (a, b, a, PRIMARY KEY (b, a)) WITHOUT ROWID",
}

//verif:bounds 15 hostile-but-parsable definitions stored as the table's sqlite_master row (unknown columns in constraints, expression keys, WITHOUT ROWID without key, duplicate columns with and without WITHOUT ROWID, two primary keys, wrong statement kinds, constraint columns that match a column only under Unicode simple folding) x operations Select, SelectRowid, PKSelect, IndexedSelect, Columns: an error or rows, never a panic
func VH_C05_hostile_schema() {
	f := sdb.VerifNewFile(512)
	root, iroot := f.AddPage(), f.AddPage()
	k := sdb.VerifChoice(len(vhHostileSQL))
	f.Master([]sdb.VerifMasterRow{
		{Typ: "table", Name: "t", Tbl: "t", Root: root, SQL: vhHostileSQL[k]},
		{Typ: "index", Name: "i", Tbl: "t", Root: iroot, SQL: "CREATE INDEX i ON t (nosuch2, a)"},
	})
	f.TableLeaf(root, []int64{1}, 1, [][]byte{sdb.VerifRecord(sdb.VerifInt64(), sdb.VerifInt64())})
	f.IndexLeaf(iroot, [][]byte{sdb.VerifRecord(sdb.VerifInt64(), int64(1))})
	d, err := f.Open()
	sdb.VerifNoErr(err, "file opens")
	db := &DB{db: d}
	cb := func(Row) {}
	switch sdb.VerifChoice(5) {
	case 0:
		_ = db.Select("t", cb, "a")
	case 1:
		_, _ = db.SelectRowid("t", 1, "a")
	case 2:
		_ = db.PKSelect("t", Key{sdb.VerifInt64()}, cb, "a")
	case 3:
		_ = db.IndexedSelect("t", "i", cb, "a")
	case 4:
		_, _ = db.Columns("t")
	}
	sdb.VerifReach("end")
}

// Index records shorter than the schema implies (WITHOUT ROWID secondary index
// whose entries lack the primary-key columns; rowid index entries without the
// rowid): an error, never a panic.
//verif:bounds the WITHOUT ROWID database of VH_C02_norowid with secondary-index records of 0..1 columns instead of 2; rowid table whose index entries are empty or end in a non-integer
func VH_C05_short_index_records() {
	f := sdb.VerifNewFile(512)
	troot, iroot := f.AddPage(), f.AddPage()
	cb := func(Row) {}
	if sdb.VerifChoice(2) == 0 {
		f.Master([]sdb.VerifMasterRow{
			{Typ: "table", Name: "w", Tbl: "w", Root: troot, SQL: "CREATE TABLE w (a, b, c, PRIMARY KEY (b DESC)) WITHOUT ROWID"},
			{Typ: "index", Name: "wi", Tbl: "w", Root: iroot, SQL: "CREATE INDEX wi ON w (c)"},
		})
		f.IndexLeaf(troot, [][]byte{sdb.VerifRecord(sdb.VerifInt64(), sdb.VerifInt64(), sdb.VerifInt64())})
		switch sdb.VerifChoice(2) {
		case 0:
			f.IndexLeaf(iroot, [][]byte{sdb.VerifRecord(sdb.VerifInt64())})
		default:
			f.IndexLeaf(iroot, [][]byte{sdb.VerifRecord()})
		}
		d, err := f.Open()
		sdb.VerifNoErr(err, "file opens")
		db := &DB{db: d}
		if sdb.VerifChoice(2) == 0 {
			_ = db.IndexedSelect("w", "wi", cb, "a")
		} else {
			_ = db.IndexedSelectEq("w", "wi", Key{}, cb, "a")
		}
	} else {
		f.Master([]sdb.VerifMasterRow{
			{Typ: "table", Name: "t", Tbl: "t", Root: troot, SQL: "CREATE TABLE t (a, b)"},
			{Typ: "index", Name: "i", Tbl: "t", Root: iroot, SQL: "CREATE INDEX i ON t (b)"},
		})
		f.TableLeaf(troot, []int64{1}, 1, [][]byte{sdb.VerifRecord(sdb.VerifInt64(), sdb.VerifInt64())})
		switch sdb.VerifChoice(3) {
		case 0:
			f.IndexLeaf(iroot, [][]byte{sdb.VerifRecord()})
		case 1:
			f.IndexLeaf(iroot, [][]byte{sdb.VerifRecord(sdb.VerifInt64(), "x")})
		default:
			f.IndexLeaf(iroot, [][]byte{sdb.VerifRecord(nil)})
		}
		d, err := f.Open()
		sdb.VerifNoErr(err, "file opens")
		db := &DB{db: d}
		err = db.IndexedSelect("t", "i", cb, "a")
		sdb.VerifAssert(err != nil, "an index entry without a usable rowid is reported")
	}
	sdb.VerifReach("end")
}

// The same stages with *generated* definitions instead of a menu (generator:
// sdb.VerifGenCreateTable, see harness/db/zz_verif_hostile.go). The schema is
// built from the generated syntax tree the way newSchema does after parsing, and
// every read operation's implementation runs on it. SQLite itself rejects many
// of these definitions (duplicate columns, two primary keys, unknown key
// columns, WITHOUT ROWID without a key) — a hostile file can contain them all
// the same.
//verif:shards 16
//verif:witnesses 16
//verif:bounds generated CREATE TABLE: 1..2 columns named from {a, b, A} (duplicates and case-duplicates included), type {"", INTEGER}, column constraint {none, PRIMARY KEY, UNIQUE}; 0..1 table constraints PRIMARY KEY/UNIQUE over 1..2 key columns from {a, b, nosuch, a+1}; WITHOUT ROWID yes/no; one-row table (concrete values) with an index i over (b, a), lookup key 1 or 2; Columns, Select, SelectRowid, PKSelect, IndexedSelect, IndexedSelectEq implementations all run on the resulting schema: errors or rows, never a panic. The syntax tree is generated directly (parsing is skipped for speed); native replays assert that parsing the rendered text gives the same tree
func VH_C05_hostile_gen() {
	sh := sdb.VerifShard(16)
	// the file depends on the shard only (WITHOUT ROWID or not): it is built and
	// opened once, before the definition is generated. The implementations below
	// do not read the stored text again, so it is a fixed one.
	f := sdb.VerifNewFile(512)
	root, iroot := f.AddPage(), f.AddPage()
	f.Master([]sdb.VerifMasterRow{
		{Typ: "table", Name: "t", Tbl: "t", Root: root, SQL: "CREATE TABLE t (a, b)"},
		{Typ: "index", Name: "i", Tbl: "t", Root: iroot, SQL: "CREATE INDEX i ON t (b, a)"},
	})
	// values are concrete here: this harness varies the definition, the value
	// space is VH_C05_hostile_schema's and the record stages'
	rec := sdb.VerifRecord(int64(1), int64(2), int64(3))
	if sh%2 == 1 {
		f.IndexLeaf(root, [][]byte{rec})
	} else {
		f.TableLeaf(root, []int64{1}, 1, [][]byte{rec})
	}
	f.IndexLeaf(iroot, [][]byte{sdb.VerifRecord(int64(2), int64(1), int64(1))})
	d, err := f.Open()
	sdb.VerifNoErr(err, "file opens")
	sdb.VerifNoErr(d.RLock(), "lock")
	key := Key{int64(1 + sdb.VerifChoice(2))}

	g := sdb.VerifGenCreateTable(sh)
	if sdb.VerifNative() {
		sdb.VerifAssert(g.ParsesToSelf(), "generated syntax tree equals the parse of its text")
	}
	s, err := sdb.VerifSchemaOf(g.AST, g.Index)
	if err != nil {
		sdb.VerifReach("rejected")
		return
	}
	cb := func(Row) {}
	cbd := func(Row) bool { return false }
	cols := []string{"a", "b"}
	ind := s.NamedIndex("i")
	// the bodies of DB.Select, SelectRowid, PKSelect, IndexedSelect, IndexedSelectEq
	// after their db.Schema(table) call
	if s.WithoutRowid {
		_ = selectNonRowid(d, s, cbd, cols)
		_ = pkSelectNonRowid(d, s, key, cb, cols)
		if ind != nil {
			_ = indexedSelectNonRowid(d, s, ind, cb, cols)
			if dbkey, err := asDbKey(key, ind.Columns); err == nil {
				_ = indexedSelectEqNonRowid(d, s, ind, dbkey, cb, cols)
			}
		}
	} else {
		_ = select_(d, s, cbd, cols)
		_, _ = selectRowid(d, s, 1, cols)
		_ = pkSelect(d, s, key, cb, cols)
		if ind != nil {
			_ = indexedSelect(d, s, ind, cb, cols)
			if dbkey, err := asDbKey(key, ind.Columns); err == nil {
				_ = indexedSelectEq(d, s, ind, dbkey, cb, cols)
			}
		}
	}
	d.RUnlock()
	sdb.VerifReach("end")
}
