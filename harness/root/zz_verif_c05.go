//go:build verif

package sqlittle

// C05 at the schema / row-mapping stages: definitions and index records a
// hostile file can contain although SQLite itself would never write them.

import (
	sdb "github.com/alicebob/sqlittle/db"
)

var vhHostileSQL = [...]string{
	"CREATE TABLE t (a, PRIMARY KEY (nosuch))",
	"CREATE TABLE t (a, UNIQUE (nosuch))",
	"CREATE TABLE t (a, b, PRIMARY KEY (a, nosuch)) WITHOUT ROWID",
	"CREATE TABLE t (a, b) WITHOUT ROWID",
	"CREATE TABLE t (a, PRIMARY KEY (a + 1))",
	"CREATE TABLE t (a, a, PRIMARY KEY (a))",
	"CREATE TABLE t (a INTEGER PRIMARY KEY, b INTEGER PRIMARY KEY)",
	"CREATE TABLE t (a, FOREIGN KEY (nosuch) REFERENCES u (x))",
	"CREATE TABLE other (a)",
	"CREATE INDEX t ON t (a)",
	"SELECT a FROM t",
	// names that are equal under Unicode simple case folding but not under
	// ToLower (U+017F long s, U+212A Kelvin sign)
	"CREATE TABLE t (s, PRIMARY KEY (\u017f))",
	"CREATE TABLE t (k, b, UNIQUE (b, \u212a))",
	"CREATE TABLE t (a INTEGER, a, PRIMARY KEY (a)) WITHOUT ROWID",
	"CREATE TABLE t (a, b, a, PRIMARY KEY (b, a)) WITHOUT ROWID",
}

//verif:bounds 15 hostile-but-parsable definitions stored as the table's sqlite_master row (unknown columns in constraints, expression keys, WITHOUT ROWID without key, duplicate columns with and without WITHOUT ROWID, two primary keys, wrong statement kinds, constraint columns that match a column only under Unicode simple folding) x operations Select, SelectRowid, PKSelect, IndexedSelect, Columns: an error or rows, never a panic
func VH_C05_hostile_schema() {
	f := sdb.VerifNewFile(512)
	root, iroot := f.AddPage(), f.AddPage()
	k := sdb.VerifChoice(len(vhHostileSQL))
	f.Master([]sdb.VerifMasterRow{
		{Typ: "table", Name: "t", Tbl: "t", Root: root, SQL: vhHostileSQL[k]},
		{Typ: "index", Name: "i", Tbl: "t", Root: iroot, SQL: "CREATE INDEX i ON t (nosuch2, a)"},
	})
	f.TableLeaf(root, []int64{1}, 1, [][]byte{sdb.VerifRecord(sdb.VerifInt64(), sdb.VerifInt64())})
	f.IndexLeaf(iroot, [][]byte{sdb.VerifRecord(sdb.VerifInt64(), int64(1))})
	d, err := f.Open()
	sdb.VerifNoErr(err, "file opens")
	db := &DB{db: d}
	cb := func(Row) {}
	switch sdb.VerifChoice(5) {
	case 0:
		_ = db.Select("t", cb, "a")
	case 1:
		_, _ = db.SelectRowid("t", 1, "a")
	case 2:
		_ = db.PKSelect("t", Key{sdb.VerifInt64()}, cb, "a")
	case 3:
		_ = db.IndexedSelect("t", "i", cb, "a")
	case 4:
		_, _ = db.Columns("t")
	}
	sdb.VerifReach("end")
}

// Index records shorter than the schema implies (WITHOUT ROWID secondary index
// whose entries lack the primary-key columns; rowid index entries without the
// rowid): an error, never a panic.
//verif:bounds the WITHOUT ROWID database of VH_C02_norowid with secondary-index records of 0..1 columns instead of 2; rowid table whose index entries are empty or end in a non-integer
func VH_C05_short_index_records() {
	f := sdb.VerifNewFile(512)
	troot, iroot := f.AddPage(), f.AddPage()
	cb := func(Row) {}
	if sdb.VerifChoice(2) == 0 {
		f.Master([]sdb.VerifMasterRow{
			{Typ: "table", Name: "w", Tbl: "w", Root: troot, SQL: "CREATE TABLE w (a, b, c, PRIMARY KEY (b DESC)) WITHOUT ROWID"},
			{Typ: "index", Name: "wi", Tbl: "w", Root: iroot, SQL: "CREATE INDEX wi ON w (c)"},
		})
		f.IndexLeaf(troot, [][]byte{sdb.VerifRecord(sdb.VerifInt64(), sdb.VerifInt64(), sdb.VerifInt64())})
		switch sdb.VerifChoice(2) {
		case 0:
			f.IndexLeaf(iroot, [][]byte{sdb.VerifRecord(sdb.VerifInt64())})
		default:
			f.IndexLeaf(iroot, [][]byte{sdb.VerifRecord()})
		}
		d, err := f.Open()
		sdb.VerifNoErr(err, "file opens")
		db := &DB{db: d}
		if sdb.VerifChoice(2) == 0 {
			_ = db.IndexedSelect("w", "wi", cb, "a")
		} else {
			_ = db.IndexedSelectEq("w", "wi", Key{}, cb, "a")
		}
	} else {
		f.Master([]sdb.VerifMasterRow{
			{Typ: "table", Name: "t", Tbl: "t", Root: troot, SQL: "CREATE TABLE t (a, b)"},
			{Typ: "index", Name: "i", Tbl: "t", Root: iroot, SQL: "CREATE INDEX i ON t (b)"},
		})
		f.TableLeaf(troot, []int64{1}, 1, [][]byte{sdb.VerifRecord(sdb.VerifInt64(), sdb.VerifInt64())})
		switch sdb.VerifChoice(3) {
		case 0:
			f.IndexLeaf(iroot, [][]byte{sdb.VerifRecord()})
		case 1:
			f.IndexLeaf(iroot, [][]byte{sdb.VerifRecord(sdb.VerifInt64(), "x")})
		default:
			f.IndexLeaf(iroot, [][]byte{sdb.VerifRecord(nil)})
		}
		d, err := f.Open()
		sdb.VerifNoErr(err, "file opens")
		db := &DB{db: d}
		err = db.IndexedSelect("t", "i", cb, "a")
		sdb.VerifAssert(err != nil, "an index entry without a usable rowid is reported")
	}
	sdb.VerifReach("end")
}
