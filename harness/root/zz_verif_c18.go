//go:build verif

package sqlittle

// C18: Row.Scan over every (stored value, destination) pair.

import (
	"strconv"
	"time"

	sdb "github.com/alicebob/sqlittle/db"
)

func vhStored(cls int) interface{} {
	switch cls {
	case 0:
		return nil
	case 1:
		return sdb.VerifInt64()
	case 2:
		f := sdb.VerifFloat64()
		sdb.VerifAssume(f == f)
		return f
	case 3:
		return sdb.VerifString(sdb.VerifChoice(3))
	default:
		return sdb.VerifBytes(sdb.VerifChoice(3))
	}
}

//verif:shards 5
//verif:bounds rows of 1..2 values over the 5 storage classes (int64/float64 full range, text/blob of 0..2 free bytes) x 0..3 destinations each of 10 kinds (string, []byte, int64, int32, int, bool, float64, time.Time, nil, unsupported); numeric text parsing, number formatting and time parsing are library stubs (only error propagation is decided there)
//verif:prop C18,C20
func VH_C18_scan() {
	cls0 := sdb.VerifShard(5)
	width := 1 + sdb.VerifChoice(2)
	row := make(Row, width)
	row[0] = vhStored(cls0)
	if width == 2 {
		row[1] = vhStored(sdb.VerifChoice(5))
	}
	before := append(Row(nil), row...)
	nargs := sdb.VerifChoice(4)
	var (
		s   [3]string
		b   [3][]byte
		i64 [3]int64
		i32 [3]int32
		i   [3]int
		bo  [3]bool
		f   [3]float64
		t   [3]time.Time
		u16 [3]uint16
	)
	kinds := make([]int, nargs)
	args := make([]interface{}, nargs)
	for k := 0; k < nargs; k++ {
		kinds[k] = sdb.VerifChoice(10)
		switch kinds[k] {
		case 0:
			args[k] = &s[k]
		case 1:
			args[k] = &b[k]
		case 2:
			args[k] = &i64[k]
		case 3:
			args[k] = &i32[k]
		case 4:
			args[k] = &i[k]
		case 5:
			args[k] = &bo[k]
		case 6:
			args[k] = &f[k]
		case 7:
			args[k] = &t[k]
		case 8:
			args[k] = nil
		case 9:
			args[k] = &u16[k]
		}
	}
	err := row.Scan(args...)
	// the row is unchanged
	for k := range row {
		sdb.VerifAssert(vhSameStored(row[k], before[k]), "row unchanged by Scan")
	}
	unsupportedSeen := false
	for k := 0; k < nargs; k++ {
		if kinds[k] == 9 {
			unsupportedSeen = true
		}
	}
	if unsupportedSeen {
		sdb.VerifAssert(err != nil, "unsupported destination type is an error")
	}
	if err == nil {
		for k := 0; k < nargs; k++ {
			var src interface{}
			missing := k >= width
			if !missing {
				src = row[k]
			}
			switch v := src.(type) {
			case nil: // NULL or missing column: zero values
				switch kinds[k] {
				case 0:
					sdb.VerifAssert(s[k] == "", "NULL/missing scans to the zero value")
				case 1:
					sdb.VerifAssert(b[k] == nil, "NULL/missing scans to the zero value")
				case 2:
					sdb.VerifAssert(i64[k] == 0, "NULL/missing scans to the zero value")
				case 3:
					sdb.VerifAssert(i32[k] == 0, "NULL/missing scans to the zero value")
				case 4:
					sdb.VerifAssert(i[k] == 0, "NULL/missing scans to the zero value")
				case 5:
					sdb.VerifAssert(!bo[k], "NULL/missing scans to the zero value")
				case 6:
					sdb.VerifAssert(f[k] == 0, "NULL/missing scans to the zero value")
				}
			case int64:
				switch kinds[k] {
				case 2:
					sdb.VerifAssert(i64[k] == v, "int64 -> int64")
				case 3:
					sdb.VerifAssert(i32[k] == int32(v), "int64 -> int32 (Go conversion)")
				case 4:
					sdb.VerifAssert(i[k] == int(v), "int64 -> int")
				case 5:
					sdb.VerifAssert(bo[k] == (v != 0), "int64 -> bool")
				case 6:
					sdb.VerifAssert(f[k] == float64(v), "int64 -> float64 (Go conversion)")
				}
			case float64:
				switch kinds[k] {
				case 6:
					sdb.VerifAssert(f[k] == v, "float64 -> float64")
				case 2:
					if v > -9e18 && v < 9e18 {
						sdb.VerifAssert(i64[k] == int64(v), "float64 -> int64 (Go conversion)")
					}
				}
			case string:
				if kinds[k] == 0 {
					sdb.VerifAssert(s[k] == v, "text -> string")
				}
				if kinds[k] == 1 {
					sdb.VerifAssert(string(b[k]) == v, "text -> []byte")
				}
			case []byte:
				if kinds[k] == 0 {
					sdb.VerifAssert(s[k] == string(v), "blob -> string")
				}
				if kinds[k] == 1 {
					sdb.VerifAssert(len(b[k]) == len(v), "blob -> []byte")
					// independence: writing to the scanned slice must not change the row
					if len(b[k]) > 0 && len(b[k]) == len(v) {
						orig := v[0]
						b[k][0] ^= 0xff
						sdb.VerifAssert(v[0] == orig, "scanned []byte is an independent copy")
						b[k][0] ^= 0xff
					}
				}
			}
		}
		sdb.VerifReach("scanned")
	}
	sdb.VerifReach("end")
}

func vhSameStored(a, b interface{}) bool {
	switch x := a.(type) {
	case nil:
		return b == nil
	case int64:
		y, ok := b.(int64)
		return ok && x == y
	case float64:
		y, ok := b.(float64)
		return ok && x == y
	case string:
		y, ok := b.(string)
		return ok && x == y
	case []byte:
		y, ok := b.([]byte)
		return ok && string(x) == string(y)
	}
	return false
}

// Numeric text is parsed strictly (decimal integer, else a float literal):
// concrete spellings through the real strconv.
//verif:bounds 20 concrete text spellings (decimal, leading zeros, signs, hex/octal/binary prefixes, exponents, blanks, empty, letters, integers beyond 2^53 up to the int64 extremes) as TEXT and as BLOB x destinations int64, int32, int, bool, float64
func VH_C18_numeric_text() {
	type tc struct {
		s     string
		okInt bool
		i     int64
		okF   bool
		f     float64
	}
	cases := [...]tc{
		{"12", true, 12, true, 12}, {"-7", true, -7, true, -7}, {"+5", true, 5, true, 5},
		{"010", true, 10, true, 10}, {"0755", true, 755, true, 755}, {"-017", true, -17, true, -17},
		{"0x10", false, 0, false, 0}, {"0b101", false, 0, false, 0}, {"0o17", false, 0, false, 0},
		{"1e3", true, 1000, true, 1000}, {"2.5", true, 2, true, 2.5},
		{" 5", false, 0, false, 0}, {"5 ", false, 0, false, 0}, {"", false, 0, false, 0},
		{"12abc", false, 0, false, 0}, {"abc", false, 0, false, 0},
		// integers a float64 cannot hold: integer text must not take a float round trip
		{"9007199254740993", true, 9007199254740993, true, 9007199254740992},
		{"1234567890123456789", true, 1234567890123456789, true, 1234567890123456789},
		{"9223372036854775807", true, 9223372036854775807, true, 9223372036854775807},
		{"-9223372036854775808", true, -9223372036854775808, true, -9223372036854775808},
	}
	c := cases[sdb.VerifChoice(len(cases))]
	var row Row
	if sdb.VerifChoice(2) == 0 {
		row = Row{c.s}
	} else {
		row = Row{[]byte(c.s)}
	}
	switch sdb.VerifChoice(5) {
	case 0:
		var v int64
		err := row.Scan(&v)
		sdb.VerifAssert((err == nil) == c.okInt, "text -> int64: accepted iff a strict decimal/float literal")
		sdb.VerifAssert(err != nil || v == c.i, "text -> int64 value")
	case 1:
		var v int32
		err := row.Scan(&v)
		sdb.VerifAssert((err == nil) == c.okInt && (err != nil || v == int32(c.i)), "text -> int32")
	case 2:
		var v int
		err := row.Scan(&v)
		sdb.VerifAssert((err == nil) == c.okInt && (err != nil || v == int(c.i)), "text -> int")
	case 3:
		var v bool
		err := row.Scan(&v)
		sdb.VerifAssert((err == nil) == c.okInt && (err != nil || v == (c.i != 0)), "text -> bool")
	case 4:
		var v float64
		err := row.Scan(&v)
		sdb.VerifAssert((err == nil) == c.okF && (err != nil || v == c.f), "text -> float64")
	}
	sdb.VerifReach("end")
}

// Numbers into text destinations: whatever spelling is chosen, it must denote
// the stored number exactly (parsing it back gives the same int64 / float64) and
// the *string and *[]byte destinations must agree. Concrete values through the
// real strconv.
//verif:bounds 8 concrete REAL values (many digits, 0.1+0.2, 1e300, smallest subnormal, 2.5, -0.75, 1e21, 2^53+2) and 5 concrete INTEGER values (0, -1, 2^53+1, int64 extremes) scanned into *string and *[]byte
func VH_C18_number_text() {
	floats := [...]float64{3.141592653589793, 0.30000000000000004, 1e300, 5e-324, 2.5, -0.75, 1e21, 9007199254740994}
	ints := [...]int64{0, -1, 9007199254740993, 9223372036854775807, -9223372036854775808}
	var s string
	var b []byte
	k := sdb.VerifChoice(len(floats) + len(ints))
	if k < len(floats) {
		f := floats[k]
		row := Row{f}
		sdb.VerifNoErr(row.Scan(&s), "REAL -> string")
		sdb.VerifNoErr(row.Scan(&b), "REAL -> []byte")
		back, err := strconv.ParseFloat(s, 64)
		sdb.VerifAssert(err == nil && back == f, "REAL -> string denotes the stored value exactly")
		sdb.VerifAssert(string(b) == s, "REAL -> []byte agrees with REAL -> string")
	} else {
		n := ints[k-len(floats)]
		row := Row{n}
		sdb.VerifNoErr(row.Scan(&s), "INTEGER -> string")
		sdb.VerifNoErr(row.Scan(&b), "INTEGER -> []byte")
		back, err := strconv.ParseInt(s, 10, 64)
		sdb.VerifAssert(err == nil && back == n, "INTEGER -> string denotes the stored value exactly")
		sdb.VerifAssert(string(b) == s, "INTEGER -> []byte agrees with INTEGER -> string")
	}
	sdb.VerifReach("end")
}

// A value obtained from Scan stays unchanged when the same destination variable
// is scanned into again (collecting rows through one variable) and when that
// later result is modified; the later row is not changed either.
//verif:bounds two rows of one value each over the 5 storage classes (text/blob of 0..2 free bytes), both scanned into the same *[]byte variable (and into the same *string); the destination may also start out as a caller-supplied buffer of 0..2 bytes
func VH_C18_rescan() {
	row1 := Row{vhStored(sdb.VerifChoice(5))}
	row2 := Row{vhStored(sdb.VerifChoice(5))}
	var b []byte
	var s string
	pre := sdb.VerifChoice(4)
	var mine []byte
	if pre > 0 {
		// the caller's own buffer in the destination: Scan may replace the
		// variable's value but must not write through it
		mine = make([]byte, pre-1, 4)
		for k := range mine {
			mine[k] = 0x5a
		}
		b = mine
	}
	err := row1.Scan(&b, &s)
	if err != nil {
		sdb.VerifReach("end")
		return
	}
	for k := range mine {
		sdb.VerifAssert(mine[k] == 0x5a, "Scan does not write through the destination's previous slice")
	}
	keep := b
	snap := string(keep)
	err = row2.Scan(&b, &s)
	if err != nil {
		sdb.VerifReach("end")
		return
	}
	sdb.VerifAssert(string(keep) == snap, "value from an earlier Scan unchanged by a later Scan into the same variable")
	// modifying the later result changes neither the earlier one nor the row
	if v, ok := row2[0].([]byte); ok && len(b) > 0 && len(b) == len(v) {
		orig := v[0]
		b[0] ^= 0xff
		sdb.VerifAssert(v[0] == orig, "scanned []byte is an independent copy of the row")
		sdb.VerifAssert(string(keep) == snap, "scanned []byte values are independent of each other")
	}
	sdb.VerifReach("scanned")
	sdb.VerifReach("end")
}
