//go:build verif

package sqlittle

// C06 (protocol part): every select-like entry point takes the read lock
// before its first page read, holds it across all page reads and callbacks,
// and releases it exactly once on every exit path — normal, early stop, error
// at the k-th page read, lock failure, panicking callback.

import (
	sdb "github.com/alicebob/sqlittle/db"
)

//verif:prop C06,C07
//verif:shards 7
//verif:bounds the C02 databases (2 rows in leaves / 4 rows over interior pages); 7 entry points; exit paths: normal, callback stops at row j, callback panics at row j, k-th page read fails (k symbolic), lock acquisition fails
func VH_C06_protocol() {
	op := sdb.VerifShard(7)
	// column a aliases the rowid here, so that PKSelect reaches its callback
	d, db := vhSetupWith(false, "CREATE TABLE t (a INTEGER PRIMARY KEY, b)")
	p := d.f.Pager
	bad0 := p.BadRead // the header probe at open happens before any lock exists
	mode := sdb.VerifChoice(4) // 0 normal, 1 fault at k-th read, 2 lock fails, 3 callback panics
	switch mode {
	case 1:
		k := sdb.VerifInt()
		sdb.VerifAssume(k >= 1)
		p.FailAt = p.Reads + k
	case 2:
		p.LockFail = true
	}
	j := sdb.VerifInt()
	sdb.VerifAssume(j >= 0)
	calls := 0
	inCallbackUnlocked := 0
	cb := func(r Row) {
		if !p.Locked {
			inCallbackUnlocked++
		}
		if mode == 3 && calls == j {
			panic("callback panics")
		}
		calls++
	}
	cbDone := func(r Row) bool { cb(r); return calls > j }
	var err error
	panicked := false
	func() {
		defer func() {
			if recover() != nil {
				panicked = true
			}
		}()
		switch op {
		case 0:
			err = db.Select("t", cb, "a", "b")
		case 1:
			err = db.SelectDone("t", cbDone, "a", "b")
		case 2:
			_, err = db.SelectRowid("t", d.rows[0].rowid, "a")
		case 3:
			err = db.IndexedSelect("t", "i", cb, "a")
		case 4:
			err = db.IndexedSelectEq("t", "i", Key{sdb.VerifInt64()}, cb, "a")
		case 5:
			err = db.PKSelect("t", Key{d.rows[0].rowid}, cb, "a")
		case 6:
			_, err = db.Columns("t")
		}
	}()
	sdb.VerifAssert(!p.Locked, "read lock released when the call returns")
	sdb.VerifAssert(p.Locks == p.Unlocks, "exactly one unlock per successful lock")
	sdb.VerifAssert(p.BadRead == bad0, "no page is read outside the lock")
	sdb.VerifAssert(inCallbackUnlocked == 0, "the lock is held while the callback runs")
	if mode == 2 {
		sdb.VerifAssert(err != nil && calls == 0 && p.Locks == 0, "lock failure: error, no rows, nothing locked")
	}
	if mode == 3 && panicked {
		sdb.VerifReach("panic-unwound")
	}
	_ = err
	sdb.VerifReach("end")
}
