//go:build verif

package sqlittle

// C01 end to end through the public select API, from page bytes: header,
// sqlite_master, CREATE TABLE text, b-tree pages and records are all decoded by
// the real code; row values and rowids are solver variables.

import (
	sdb "github.com/alicebob/sqlittle/db"
)

type vhRow struct {
	rowid int64
	vals  []int64
}

// vhTwoLevelTable writes a table of `leaves` leaf pages with `per` rows each
// (an interior root when leaves > 1). Rows have ncols int64 columns; rows of
// the first leaf may be `short` columns shorter (ALTER TABLE ADD COLUMN).
func vhTable(f *sdb.VerifFile, root int, leaves, per, ncols, short int, nullFirst bool) []vhRow {
	var rows []vhRow
	var leafPages []int
	if leaves == 1 {
		leafPages = []int{root}
	} else {
		for i := 0; i < leaves; i++ {
			leafPages = append(leafPages, f.AddPage())
		}
	}
	var seps []int64
	for li, pg := range leafPages {
		var ids []int64
		var pls [][]byte
		for j := 0; j < per; j++ {
			r := vhRow{rowid: sdb.VerifInt64()}
			if n := len(rows); n > 0 {
				sdb.VerifAssume(rows[n-1].rowid < r.rowid)
			}
			n := ncols
			if li == 0 {
				n -= short
			}
			var rec []interface{}
			for c := 0; c < ncols; c++ {
				v := sdb.VerifInt64()
				r.vals = append(r.vals, v)
				if c < n {
					if c == 0 && nullFirst {
						rec = append(rec, nil)
					} else {
						rec = append(rec, v)
					}
				}
			}
			rows = append(rows, r)
			ids = append(ids, r.rowid)
			pls = append(pls, sdb.VerifRecord(rec...))
		}
		f.TableLeaf(pg, ids, 9, pls)
		if li < len(leafPages)-1 {
			seps = append(seps, ids[len(ids)-1])
		}
	}
	if leaves > 1 {
		f.TableInterior(root, leafPages, seps, 9)
	}
	return rows
}

type vhSchemaCase struct {
	names    []string
	sql      string
	ncols    int
	rowidCol int // column aliasing the rowid, or -1
	defaults []int64
	hasDef   []bool
}

var vhSchemas = []vhSchemaCase{
	{names: []string{"a", "b", "c"}, sql: "CREATE TABLE t (a, b, c)", ncols: 3, rowidCol: -1},
	{names: []string{"id", "b", "c"}, sql: "CREATE TABLE t (id INTEGER PRIMARY KEY, b, c DEFAULT 7)", ncols: 3, rowidCol: 0, defaults: []int64{0, 0, 7}, hasDef: []bool{false, false, true}},
	{names: []string{"a", "b"}, sql: "CREATE TABLE \"t\" (a TEXT UNIQUE, b integer, primary key(b DESC))", ncols: 2, rowidCol: 1},
	// ordinary columns that happen to be called like the rowid: the column wins
	{names: []string{"oid", "b", "_rowid_"}, sql: "CREATE TABLE t (oid, b, _ROWID_ DEFAULT 7)", ncols: 3, rowidCol: -1, defaults: []int64{0, 0, 7}, hasDef: []bool{false, false, true}},
	// primary keys that are NOT rowid aliases: composite key starting with an
	// INTEGER column; single-column key whose type is INT, not INTEGER
	{names: []string{"a", "b", "c"}, sql: "CREATE TABLE t (a INTEGER, b, c, PRIMARY KEY (a, b))", ncols: 3, rowidCol: -1},
	{names: []string{"a", "b", "c"}, sql: "CREATE TABLE t (a INT PRIMARY KEY, b, c)", ncols: 3, rowidCol: -1},
}

var vhColumnSets = [][]string{
	{"a", "b", "c"},
	{"c", "rowid", "a"},
	{"B", "b", "_ROWID_"},
	{"oid"},
	{},
	{"id", "c"},
}

//verif:shards 6
//verif:bounds 6 table definitions (plain, INTEGER PRIMARY KEY alias with DEFAULT, table-constraint rowid alias, ordinary columns named oid/_rowid_, composite primary key starting with an INTEGER column, INT PRIMARY KEY — the last two are not rowid aliases) x 6 column lists (permutations, duplicates, rowid/oid/_rowid_, case variants, unknown names) x page size 512 / 4096 (thorough: + 1024) x trees of 1 leaf or interior+2 leaves with 1..2 rows per leaf; row values and rowids any int64; first-leaf rows optionally one column short (ALTER TABLE ADD COLUMN)
//verif:prop C01,C20
func VH_C01_select() {
	sc := vhSchemas[sdb.VerifShard(6)]
	cols := vhColumnSets[sdb.VerifChoice(len(vhColumnSets))]
	leaves := 1 + sdb.VerifChoice(2)
	per := 1 + sdb.VerifChoice(2)
	short := sdb.VerifChoice(2)
	// page size: 512 and 4096 always, 1024 in the thorough tier (the header
	// encoding of 65536 is C15's, the spill arithmetic of every size C14's)
	sizes := [3]int{512, 4096, 1024}
	f := sdb.VerifNewFile(sizes[sdb.VerifChoice(2+sdb.VerifTier())])
	root := f.AddPage()
	f.Master([]sdb.VerifMasterRow{{Typ: "table", Name: "t", Tbl: "t", Root: root, SQL: sc.sql}})
	rows := vhTable(f, root, leaves, per, sc.ncols, short, sc.rowidCol == 0)
	d, err := f.Open()
	sdb.VerifAssert(err == nil, "valid file opens")
	if err != nil {
		return
	}
	db := &DB{db: d}
	// which requested columns exist?
	known := true
	names := map[string]int{}
	for i, n := range sc.names {
		names[n] = i
	}
	type want struct {
		col   int
		rowid bool
	}
	var wants []want
	for _, c := range cols {
		lc := vhLower(c)
		if i, ok := names[lc]; ok {
			wants = append(wants, want{col: i, rowid: i == sc.rowidCol})
		} else if lc == "rowid" || lc == "oid" || lc == "_rowid_" {
			wants = append(wants, want{rowid: true})
		} else {
			known = false
		}
	}
	var got []Row
	err = db.SelectDone("t", func(r Row) bool { got = append(got, r); return false }, cols...)
	if !known {
		sdb.VerifAssert(err != nil, "unknown column is an error")
		sdb.VerifAssert(len(got) == 0, "no rows with an unknown column")
		sdb.VerifReach("unknown-column")
		return
	}
	sdb.VerifNoErr(err, "select succeeds")
	sdb.VerifAssert(len(got) == len(rows), "every row exactly once")
	if err == nil && len(got) == len(rows) {
		for i, r := range rows {
			sdb.VerifAssert(len(got[i]) == len(wants), "row width == requested columns")
			if len(got[i]) != len(wants) {
				continue
			}
			for j, w := range wants {
				isShort := short == 1 && i < per && w.col == sc.ncols-1 && !w.rowid
				switch {
				case w.rowid:
					v, ok := got[i][j].(int64)
					sdb.VerifAssert(ok && v == r.rowid, "rowid column")
				case isShort && sc.hasDef != nil && sc.hasDef[w.col]:
					v, ok := got[i][j].(int64)
					sdb.VerifAssert(ok && v == sc.defaults[w.col], "missing column takes its DEFAULT")
				case isShort:
					sdb.VerifAssert(got[i][j] == nil, "missing column without DEFAULT is NULL")
				default:
					v, ok := got[i][j].(int64)
					sdb.VerifAssert(ok && v == r.vals[w.col], "column value")
				}
			}
		}
	}
	sdb.VerifAssert(!f.Pager.Locked && f.Pager.Locks == f.Pager.Unlocks && f.Pager.BadRead <= 1, "lock released, pages read under the lock")
	sdb.VerifReach("end")
}

func vhLower(s string) string {
	b := []byte(s)
	for i, c := range b {
		if c >= 'A' && c <= 'Z' {
			b[i] = c + 32
		}
	}
	return string(b)
}

// One row whose single blob column spills to overflow pages, through the
// public API, for payload lengths around each threshold (page size 512:
// X = 477 local maximum, M = 39 minimum, 508 bytes per overflow page).
//verif:prop C01,C14,C20
//verif:bounds page size 512; payload lengths P in {476,477,478,546,547,985,986,1055,1500}; blob content symbolic, compared at both ends and on either side of every chunk boundary; rowid symbolic
func VH_C01_overflow_row() {
	lengths := [...]int{476, 477, 478, 546, 547, 985, 986, 1055, 1500}
	p := lengths[sdb.VerifChoice(len(lengths))]
	// record = header (header size varint, one serial type varint) + blob
	blobLen := p - 3
	st := 12 + 2*blobLen
	hdrLen := 1 + sdb.VerifVarintLen(int64(st))
	blobLen = p - hdrLen
	content := sdb.VerifBytes(blobLen)
	rec := sdb.VerifRecord(content)
	sdb.VerifAssume(len(rec) == p)
	const U, X, M = 512, 477, 39
	local := p
	if p > X {
		k := M + (p-M)%(U-4)
		if k <= X {
			local = k
		} else {
			local = M
		}
	}
	f := sdb.VerifNewFile(U)
	root := f.AddPage()
	f.Master([]sdb.VerifMasterRow{{Typ: "table", Name: "t", Tbl: "t", Root: root, SQL: "CREATE TABLE t (a)"}})
	rowid := sdb.VerifInt64()
	if local == p {
		f.TableLeaf(root, []int64{rowid}, 9, [][]byte{rec})
	} else {
		rest := rec[local:]
		first := 0
		prev := 0
		for len(rest) > 0 {
			pg := f.AddPage()
			n := len(rest)
			if n > U-4 {
				n = U - 4
			}
			f.Overflow(pg, 0, rest[:n])
			if prev != 0 {
				b := f.Page(prev)
				b[0], b[1], b[2], b[3] = byte(pg>>24), byte(pg>>16), byte(pg>>8), byte(pg)
			} else {
				first = pg
			}
			prev = pg
			rest = rest[n:]
		}
		f.TableLeafSpill(root, rowid, 9, p, rec[:local], first)
	}
	d, err := f.Open()
	sdb.VerifNoErr(err, "valid file opens")
	db := &DB{db: d}
	n := 0
	var got []byte
	var gotID int64
	err = db.Select("t", func(r Row) {
		n++
		got, _ = r[0].([]byte)
		gotID, _ = r[1].(int64)
	}, "a", "rowid")
	sdb.VerifNoErr(err, "select succeeds")
	sdb.VerifAssert(n == 1 && gotID == rowid && len(got) == blobLen, "one row with the full-length blob")
	if len(got) == blobLen {
		// every byte on either side of each chunk boundary, plus both ends (the
		// all-positions statement with a skolem index is C14's spill harness)
		check := func(i int) {
			if i >= 0 && i < blobLen {
				sdb.VerifAssert(got[i] == content[i], "blob content across the overflow chain")
			}
		}
		check(0)
		check(blobLen - 1)
		for b := local - hdrLen; b < blobLen+2; b += U - 4 {
			check(b - 1)
			check(b)
			check(b + 1)
		}
	}
	sdb.VerifReach("end")
}
