//go:build verif

package sql

// C16: the SQL front end is total (no panic, progress), deterministic, and
// what it reports about one element depends on that element's text only.

func vhTokEq(a, b token) bool {
	return a.typ == b.typ && a.s == b.s && a.n == b.n
}

//verif:bounds every byte string of length 0..2 (thorough: also every 3-byte ASCII string): tokenize and Parse return without panic within the loop budget
//verif:unwind 12
//verif:shards 56
func VH_C16_bytes_total() {
	sh := verifShard(56)
	var s string
	var n int
	if sh < 24 {
		// lengths 0..2: the shard fixes the top three bits of the first byte
		n = sh / 8
		s = verifString(n)
		if n > 0 {
			verifAssume(int(s[0])>>5 == sh%8)
		} else if sh%8 != 0 {
			verifReach("end")
			return
		}
	} else {
		// length 3, thorough tier only: the shard fixes the top five bits
		if verifTier() == 0 {
			verifReach("end")
			return
		}
		n = 3
		s = verifString(n)
		verifAssume(int(s[0])>>3 == sh-24)
		// 3-byte strings: ASCII only (all 2^24 byte strings did not finish in 50
		// minutes on 16 cores; multi-byte runes are covered at lengths <= 2 and by
		// VH_C16_no_skip)
		verifAssume(s[0] < 0x80 && s[1] < 0x80 && s[2] < 0x80)
	}
	toks, err := tokenize(s)
	if err == nil {
		verifAssert(len(toks) <= n, "at most one token per input byte")
	}
	_, _ = Parse(s)
	verifReach("end")
}

// No byte is skipped or glued: for barewords a, b (one rune each, possibly
// multi-byte) and a single-byte separator c in "(),*+-~ ", tokens(a c b) ==
// tokens(a) ++ tokens(c) ++ tokens(b).
//verif:bounds a, b: one letter each — any ASCII letter or '_' (1 byte) or any Latin-1 letter U+00C0..U+00FF (2 bytes); separator one of ( ) , * + - ~ space
//verif:shards 32
func VH_C16_no_skip() {
	sh := verifShard(32)
	la, lb := 1+sh%2, 1+(sh/2)%2
	a, b := vhLetterRune(la), vhLetterRune(lb)
	seps := "(),*+-~ "
	sep := string(seps[sh/4])
	ts, es := tokenize(sep)
	verifAssume(es == nil)
	all, err := tokenize(a + sep + b)
	verifAssert(err == nil, "concatenation of valid tokens tokenizes")
	if err == nil {
		verifAssert(len(all) == 2+len(ts), "no token lost or glued")
		if len(all) == 2+len(ts) {
			verifAssert(all[0].typ == tBare && all[0].s == a, "first bareword intact")
			verifAssert(all[len(all)-1].typ == tBare && all[len(all)-1].s == b, "second bareword intact")
		}
	}
	verifReach("end")
}

// vhLetterRune: one letter that is not part of a keyword problem: n == 1 an
// ASCII letter or '_', n == 2 a Latin-1 letter U+00C0..U+00FF (UTF-8 C3 80..BF
// without the two non-letters U+00D7, U+00F7).
func vhLetterRune(n int) string {
	s := verifString(n)
	if n == 1 {
		c := s[0]
		verifAssume(verifOr(verifOr(verifAnd(c >= 'a', c <= 'z'), verifAnd(c >= 'A', c <= 'Z')), c == '_'))
		return s
	}
	verifAssume(s[0] == 0xC3)
	verifAssume(verifAnd(verifAnd(s[1] >= 0x80, s[1] <= 0xBF), verifAnd(s[1] != 0x97, s[1] != 0xB7)))
	return s
}

// Locality of indexed columns: k columns, each with optional COLLATE and
// ASC/DESC; what is reported for column j is what column j says.
//verif:bounds CREATE INDEX / PRIMARY KEY / UNIQUE lists of 1..3 indexed columns, each: optional COLLATE (2 names), optional ASC/DESC — every combination
//verif:prop C16,C20
func VH_C16_local_indexed() {
	k := 1 + verifChoice(3)
	form := verifChoice(3)
	names := [3]string{"a", "b", "c"}
	colls := [3]string{"", "nocase", "rtrim"}
	var wantColl [3]string
	var wantDesc [3]bool
	list := ""
	for j := 0; j < k; j++ {
		if j > 0 {
			list += ", "
		}
		list += names[j]
		wantColl[j] = colls[verifChoice(3)]
		if wantColl[j] != "" {
			list += " COLLATE " + wantColl[j]
		}
		switch verifChoice(3) {
		case 1:
			list += " ASC"
		case 2:
			list += " DESC"
			wantDesc[j] = true
		}
	}
	var text string
	switch form {
	case 0:
		text = "CREATE INDEX i ON t (" + list + ")"
	case 1:
		text = "CREATE TABLE t (a, b, c, PRIMARY KEY (" + list + "))"
	default:
		text = "CREATE TABLE t (a, b, c, UNIQUE (" + list + "))"
	}
	st, err := Parse(text)
	verifAssert(err == nil, "valid statement parses")
	if err != nil {
		return
	}
	var got []IndexedColumn
	switch x := st.(type) {
	case CreateIndexStmt:
		got = x.IndexedColumns
	case CreateTableStmt:
		verifAssert(len(x.Constraints) == 1, "one table constraint")
		if len(x.Constraints) == 1 {
			switch c := x.Constraints[0].(type) {
			case TablePrimaryKey:
				got = c.IndexedColumns
			case TableUnique:
				got = c.IndexedColumns
			}
		}
	}
	verifAssert(len(got) == k, "number of indexed columns")
	if len(got) == k {
		for j := 0; j < k; j++ {
			verifAssert(got[j].Column == names[j], "indexed column name")
			verifAssert(got[j].Collate == wantColl[j], "COLLATE of an indexed column is its own")
			verifAssert((got[j].SortOrder == Desc) == wantDesc[j], "sort order of an indexed column is its own")
		}
	}
	// determinism: the same text parses to the same thing again, also after
	// another statement has been parsed in between
	_, _ = Parse("CREATE TABLE z (q COLLATE rtrim PRIMARY KEY DESC)")
	st2, err2 := Parse(text)
	verifAssert(err2 == nil, "second parse succeeds")
	if ci, ok := st2.(CreateIndexStmt); ok && len(ci.IndexedColumns) == k {
		for j := 0; j < k; j++ {
			verifAssert(ci.IndexedColumns[j] == got[j], "same result on the second parse")
		}
	}
	verifReach("end")
}

// Locality of column definitions: 2..3 columns, each with its own optional
// type, PRIMARY KEY (once), NOT NULL, UNIQUE, DEFAULT, COLLATE.
//verif:bounds CREATE TABLE with 2 column definitions, each: type or none, NOT NULL, UNIQUE, DEFAULT <int>, COLLATE — every combination (PRIMARY KEY DESC on at most one column)
func VH_C16_local_columns() {
	k := 2
	names := [3]string{"a", "b", "c"}
	type want struct {
		typ, coll       string
		notnull, unique bool
		hasDef          bool
		pk              bool
	}
	var w [3]want
	text := "CREATE TABLE t ("
	pkAt := verifChoice(k + 1) // k = none
	for j := 0; j < k; j++ {
		if j > 0 {
			text += ", "
		}
		text += names[j]
		if verifChoice(2) == 1 {
			w[j].typ = "TEXT"
			text += " TEXT"
		}
		if pkAt == j {
			w[j].pk = true
			text += " PRIMARY KEY DESC"
		}
		if verifChoice(2) == 1 {
			w[j].notnull = true
			text += " NOT NULL"
		}
		if verifChoice(2) == 1 {
			w[j].unique = true
			text += " UNIQUE"
		}
		if verifChoice(2) == 1 {
			w[j].hasDef = true
			text += " DEFAULT 5"
		}
		if verifChoice(2) == 1 {
			w[j].coll = "nocase"
			text += " COLLATE nocase"
		}
	}
	text += ")"
	st, err := Parse(text)
	verifAssert(err == nil, "valid statement parses")
	ct, ok := st.(CreateTableStmt)
	verifAssert(ok && len(ct.Columns) == k, "column count")
	if ok && len(ct.Columns) == k {
		for j := 0; j < k; j++ {
			c := ct.Columns[j]
			verifAssert(c.Name == names[j] && c.Type == w[j].typ, "name and type are the column's own")
			verifAssert(c.Collate == w[j].coll, "COLLATE is the column's own")
			verifAssert(c.Null == !w[j].notnull, "NOT NULL is the column's own")
			verifAssert(c.Unique == w[j].unique, "UNIQUE is the column's own")
			verifAssert(c.PrimaryKey == w[j].pk && (c.PrimaryKeyDir == Desc) == w[j].pk, "PRIMARY KEY is the column's own")
			d, isInt := c.Default.(int64)
			verifAssert((c.Default != nil) == w[j].hasDef && (!w[j].hasDef || isInt && d == 5), "DEFAULT is the column's own")
		}
	}
	verifReach("end")
}

// Quoted tokens with escapes, comments-free but odd spellings: frame check
// (C20: the front end keeps no state between calls) and determinism.
//verif:prop C16,C20
//verif:bounds 8 statements with quoted/bracketed/backticked identifiers incl. doubled quotes and string literals with '' escapes; each parsed twice with another statement in between
func VH_C16_quoted() {
	texts := [...]string{
		`CREATE TABLE "a""b" ("c""d" TEXT DEFAULT 'it''s', [e f] INT, ` + "`g``h`" + ` BLOB)`,
		`CREATE INDEX "i""x" ON "a""b" ("c""d" COLLATE nocase DESC, [e f])`,
		`CREATE TABLE t (a DEFAULT '', b DEFAULT '''', c DEFAULT 'x''''y')`,
		`SELECT "a""b", [c d] FROM "t""u"`,
		`CREATE TABLE t ("" TEXT, "a" INT)`,
		`CREATE TABLE t (a TEXT DEFAULT 'unterminated`,
		`CREATE TABLE t ("unterminated TEXT)`,
		`CREATE TABLE t (a, b, PRIMARY KEY ("a""", b))`,
	}
	k := verifChoice(len(texts))
	st1, err1 := Parse(texts[k])
	_, _ = Parse(texts[(k+1)%len(texts)])
	st2, err2 := Parse(texts[k])
	verifAssert((err1 == nil) == (err2 == nil), "same verdict on the second parse")
	// statements 0..3 and 7 are accepted by SQLite (5 and 6 are unterminated on purpose)
	if k <= 3 || k == 7 {
		verifAssert(err1 == nil, "a statement SQLite accepts parses, whatever quoting styles it mixes")
	}
	if ct1, ok := st1.(CreateTableStmt); ok {
		ct2, ok2 := st2.(CreateTableStmt)
		verifAssert(ok2 && ct1.Table == ct2.Table && len(ct1.Columns) == len(ct2.Columns), "same statement on the second parse")
		if ok2 && len(ct1.Columns) == len(ct2.Columns) {
			for i := range ct1.Columns {
				verifAssert(ct1.Columns[i].Name == ct2.Columns[i].Name, "same column names on the second parse")
			}
		}
	}
	if k == 0 && err1 == nil {
		ct := st1.(CreateTableStmt)
		verifAssert(ct.Table == `a"b` && len(ct.Columns) == 3 && ct.Columns[0].Name == `c"d` && ct.Columns[1].Name == "e f" && ct.Columns[2].Name == "g`h", "doubled quotes are unescaped")
		d, _ := ct.Columns[0].Default.(string)
		verifAssert(d == "it's", "'' in a literal is one quote")
	}
	verifReach("end")
}

// Token level: the grammar's driver and every semantic action, on sequences of
// tokens the tokenizer can emit (the byte-level harnesses above cannot reach past
// three bytes; most of the grammar needs more). The sequence is grown one token
// at a time from a menu of every token kind; a prefix the parser gives up on
// before its last token is not extended (nothing after the point of the syntax
// error is ever looked at), so what is explored is every *viable* prefix of the
// grammar up to the length bound, each extended by every token kind. Finite case
// split, no solver variables: texts and numbers are fixed ("a", "<", 1, 1.5), the
// actions do not branch on them.
var vhTokKinds = [...]int{
	'(', ')', ',', '+', '-', '~', '*',
	tBare, tLiteral, tIdentifier, tOperator, tSignedNumber, tFloat,
	ACTION, AND, ASC, AUTOINCREMENT, CASCADE, CHECK, COLLATE, CONFLICT, CONSTRAINT,
	CREATE, DEFAULT, DEFERRABLE, DEFERRED, DELETE, DESC, FOREIGN, FROM, GLOB, INDEX,
	IN, INITIALLY, IS, KEY, LIKE, MATCH, NO, NOT, NULL, ON, OR, PRIMARY, REFERENCES,
	REGEXP, REPLACE, RESTRICT, ROWID, SELECT, SET, TABLE, UNIQUE, UPDATE, WHERE, WITHOUT,
}

//verif:bounds every viable token prefix of the grammar of length <= 6 (thorough: <= 8), extended by each of the 56 token kinds the tokenizer can emit (7 punctuation characters, bareword, literal, identifier, operator, integer, float, 43 keywords): yyParse returns without panic within the loop budget, and parsing the same tokens again gives the same result
//verif:unwind 64
//verif:shards 56
func VH_C16_tokens_total() {
	var toks []token
	max := 7 + 2*verifTier()
	for k := 0; k < max; k++ {
		var c int
		if k == 0 {
			c = verifShard(len(vhTokKinds))
		} else {
			c = verifChoice(len(vhTokKinds) + 1)
			if c == len(vhTokKinds) {
				break // the sequence ends here
			}
		}
		// fields as the tokenizer fills them: numbers carry n or f, all others s
		tk := token{typ: vhTokKinds[c], s: "a"}
		switch tk.typ {
		case tSignedNumber:
			tk = ntoken(1)
		case tFloat:
			tk = ftoken(1.5)
		case '(', ')', ',', '+', '-', '~', '*':
			tk.s = string(rune(tk.typ))
		case tOperator:
			tk.s = "<"
		}
		toks = append(toks, tk)
		l := &lexer{tokens: toks}
		yyParse(l)
		if l.err != nil {
			// Was the error raised AT the last token (dead prefix: nothing after it
			// is ever looked at) or at the end of input (viable prefix)? A probe
			// token appended to the sequence is read only in the second case.
			probe := &lexer{tokens: append(append([]token(nil), toks...), token{typ: ',', s: ","})}
			yyParse(probe)
			if len(probe.tokens) > 0 {
				verifReach("end")
				return
			}
		}
		if k == max-1 {
			l2 := &lexer{tokens: toks}
			yyParse(l2)
			verifAssert((l.err == nil) == (l2.err == nil), "same tokens, same verdict")
		}
	}
	verifReach("end")
}

// Within one column definition the constraints may come in any order, and what
// each of them reports must not depend on its neighbours in the list (the
// harness above fixes one order and one DEFAULT spelling).
//verif:bounds column a followed by a plain column b: every ordered selection of 0..3 distinct constraint kinds out of {NOT NULL | NULL, UNIQUE, DEFAULT (5 | NULL | 'x' | -2), COLLATE nocase, PRIMARY KEY, CHECK (a)} - each kind's reported attribute equals what that constraint alone reports, the neighbour column reports nothing
//verif:shards 11
func VH_C16_constraint_order() {
	const nk = 6
	used := [nk]bool{}
	text := "CREATE TABLE t (a INT"
	wantNull, wantUnique, wantPK, wantColl := true, false, false, ""
	var wantDef interface{}
	nchecks := 0
	// (kind, spelling) of the first constraint by shard; shard 10: no constraint
	first := [10][2]int{{0, 0}, {1, 0}, {2, 0}, {3, 0}, {4, 0}, {5, 0}, {0, 1}, {2, 1}, {2, 2}, {2, 3}}
	sh := verifShard(11)
	for step := 0; step < 3 && sh < 10; step++ {
		var k, variant int
		if step == 0 {
			k, variant = first[sh][0], first[sh][1]
		} else {
			k = verifChoice(nk + 1)
			if k == nk {
				break
			}
			if k == 0 {
				variant = verifChoice(2)
			} else if k == 2 {
				variant = verifChoice(4)
			}
		}
		if used[k] {
			verifAssume(false)
		}
		used[k] = true
		switch k {
		case 0:
			if variant == 0 {
				text += " NOT NULL"
				wantNull = false
			} else {
				text += " NULL"
			}
		case 1:
			text += " UNIQUE"
			wantUnique = true
		case 2:
			switch variant {
			case 0:
				text += " DEFAULT 5"
				wantDef = int64(5)
			case 1:
				text += " DEFAULT NULL"
			case 2:
				text += " DEFAULT 'x'"
				wantDef = "x"
			default:
				text += " DEFAULT -2"
				wantDef = int64(-2)
			}
		case 3:
			text += " COLLATE nocase"
			wantColl = "nocase"
		case 4:
			text += " PRIMARY KEY"
			wantPK = true
		case 5:
			text += " CHECK (a)"
			nchecks++
		}
	}
	text += ", b)"
	verifDebugf("sql=%s", text)
	st, err := Parse(text)
	verifAssert(err == nil, "valid statement parses")
	ct, ok := st.(CreateTableStmt)
	verifAssert(ok && len(ct.Columns) == 2, "column count")
	if ok && len(ct.Columns) == 2 {
		a, b := ct.Columns[0], ct.Columns[1]
		verifAssert(a.Name == "a" && a.Type == "INT", "name and type")
		verifAssert(a.Null == wantNull, "NOT NULL / NULL is reported whatever surrounds it")
		verifAssert(a.Unique == wantUnique, "UNIQUE is reported whatever surrounds it")
		verifAssert(a.PrimaryKey == wantPK, "PRIMARY KEY is reported whatever surrounds it")
		verifAssert(a.Collate == wantColl, "COLLATE is reported whatever surrounds it")
		verifAssert(len(a.Checks) == nchecks, "CHECK is reported whatever surrounds it")
		switch w := wantDef.(type) {
		case nil:
			verifAssert(a.Default == nil, "no DEFAULT / DEFAULT NULL reports nil whatever surrounds it")
		case int64:
			d, isInt := a.Default.(int64)
			verifAssert(isInt && d == w, "DEFAULT <int> is reported whatever surrounds it")
		case string:
			d, isStr := a.Default.(string)
			verifAssert(isStr && d == w, "DEFAULT <text> is reported whatever surrounds it")
		}
		verifAssert(b.Name == "b" && b.Type == "" && b.Null && !b.Unique && !b.PrimaryKey && b.Collate == "" && b.Default == nil && len(b.Checks) == 0, "the neighbour column reports nothing")
	}
	verifReach("end")
}

// Quoting styles next to each other: what a column's name (and a string
// literal) unescapes to does not depend on how its neighbours are quoted.
//verif:bounds CREATE TABLE with 3 columns, each name written bare, "double-quoted with a doubled quote", `backticked with a doubled backtick` or [bracketed with a blank] - all 64 combinations - the middle column with DEFAULT 'it''s'
func VH_C16_quote_styles() {
	texts := [4]string{"ab", `"a""b"`, "`a``b`", "[a b]"}
	names := [4]string{"ab", `a"b`, "a`b", "a b"}
	var st [3]int
	for i := range st {
		st[i] = verifChoice(4)
	}
	text := "CREATE TABLE t (" + texts[st[0]] + " INT, " + texts[st[1]] + " TEXT DEFAULT 'it''s', " + texts[st[2]] + ")"
	verifDebugf("sql=%s", text)
	parsed, err := Parse(text)
	verifAssert(err == nil, "every mix of quoting styles parses")
	ct, ok := parsed.(CreateTableStmt)
	verifAssert(ok && len(ct.Columns) == 3, "three columns")
	if ok && len(ct.Columns) == 3 {
		for i := range st {
			verifAssert(ct.Columns[i].Name == names[st[i]], "a quoted name unescapes the same way whatever precedes it")
		}
		verifAssert(ct.Columns[0].Type == "INT" && ct.Columns[1].Type == "TEXT" && ct.Columns[2].Type == "", "types are the columns' own")
		d, isStr := ct.Columns[1].Default.(string)
		verifAssert(isStr && d == "it's", "the string literal unescapes the same way whatever precedes it")
	}
	verifReach("end")
}
