//go:build verif

package sql

// Runtime of the verification harnesses. The symbolic executor intercepts
// every Verif*/verif* call; the bodies below are what runs when a solver model
// is replayed natively (go test -tags verif -overlay ...).

import (
	"encoding/hex"
	"fmt"
	"math"
	"os"
)

type VerifInput struct {
	K string `json:"k"`
	V uint64 `json:"v"`
	B string `json:"b"`
}

type VerifFail struct{ Msg string }
type VerifStop struct{ Why string }

var (
	verifVec      []VerifInput
	verifPos      int
	VerifLog      []string
	VerifDiverged string
)

func VerifSetVector(v []VerifInput) {
	verifVec, verifPos, VerifLog, VerifDiverged = nil, 0, nil, ""
	for _, e := range v {
		// entries produced for nondeterministic library stubs are not consumed natively
		if e.K == "stub64" || e.K == "stubchoice" {
			continue
		}
		verifVec = append(verifVec, e)
	}
}

func verifNext(kind string) VerifInput {
	if verifPos >= len(verifVec) {
		VerifDiverged = "vector exhausted asking for " + kind
		panic(VerifStop{VerifDiverged})
	}
	e := verifVec[verifPos]
	verifPos++
	if e.K != kind {
		VerifDiverged = fmt.Sprintf("vector entry %d is %s, harness asked for %s", verifPos-1, e.K, kind)
		panic(VerifStop{VerifDiverged})
	}
	return e
}

func VerifInt64() int64     { return int64(verifNext("int64").V) }
func VerifInt() int         { return int(int64(verifNext("int64").V)) }
func VerifUint32() uint32   { return uint32(verifNext("uint32").V) }
func VerifInt32() int32     { return int32(uint32(verifNext("uint32").V)) }
func VerifUint16() uint16   { return uint16(verifNext("uint16").V) }
func VerifByte() byte       { return byte(verifNext("byte").V) }
func VerifBool() bool       { return verifNext("bool").V != 0 }
func VerifFloat64() float64 { return math.Float64frombits(verifNext("float64").V) }
func VerifChoice(n int) int {
	v := int(verifNext("choice").V)
	if v < 0 || v >= n {
		panic(VerifStop{"choice out of range"})
	}
	return v
}
func VerifBytes(n int) []byte {
	e := verifNext("bytes")
	b, err := hex.DecodeString(e.B)
	if err != nil || len(b) != n {
		panic(VerifStop{"bad bytes entry"})
	}
	return b
}
func VerifString(n int) string { return string(VerifBytes(n)) }
func VerifAssume(c bool) {
	if !c {
		panic(VerifStop{"assumption false"})
	}
}
func VerifAssert(c bool, msg string) {
	if !c {
		panic(VerifFail{msg})
	}
}
func VerifReach(msg string)  { VerifLog = append(VerifLog, msg) }
func VerifObserve(v int64)   { VerifLog = append(VerifLog, fmt.Sprintf("obs:%d", v)) }
func VerifNote(msg string)   {}
// VerifNative: true in native replays, false under the symbolic executor. Only
// for checks of the harness itself that are too slow to execute symbolically.
func VerifNative() bool { return true }
func verifNative() bool { return VerifNative() }
func VerifTier() int {
	if os.Getenv("VERIF_TIER") == "thorough" {
		return 1
	}
	return 0
}

func verifInt64() int64            { return VerifInt64() }
func verifInt() int                { return VerifInt() }
func verifUint32() uint32          { return VerifUint32() }
func verifInt32() int32            { return VerifInt32() }
func verifUint16() uint16          { return VerifUint16() }
func verifByte() byte              { return VerifByte() }
func verifBool() bool              { return VerifBool() }
func verifFloat64() float64        { return VerifFloat64() }
func verifChoice(n int) int        { return VerifChoice(n) }
func verifBytes(n int) []byte      { return VerifBytes(n) }
func verifString(n int) string     { return VerifString(n) }
func verifAssume(c bool)           { VerifAssume(c) }
func verifAssert(c bool, m string) { VerifAssert(c, m) }
func verifReach(m string)          { VerifReach(m) }
func verifObserve(v int64)         { VerifObserve(v) }
func verifNote(m string)           { VerifNote(m) }
func verifTier() int               { return VerifTier() }

func VerifSetFile(name string, content []byte, length int, mode int) {}

func VerifAnd(a, b bool) bool { return a && b }
func VerifOr(a, b bool) bool  { return a || b }
func verifAnd(a, b bool) bool { return a && b }
func verifOr(a, b bool) bool  { return a || b }
func VerifPadFile(name string, length int) {}

func VerifIte(c bool, a, b int) int {
	if c {
		return a
	}
	return b
}
func verifIte(c bool, a, b int) int { return VerifIte(c, a, b) }

// VerifShard: a case split explored by parallel executor instances.
func VerifShard(n int) int { return VerifChoice(n) }
func verifShard(n int) int { return VerifChoice(n) }

// VerifNoErr asserts err == nil; the native failure message carries the error text.
func VerifNoErr(err error, msg string) {
	if err != nil {
		panic(VerifFail{msg + " [" + err.Error() + "]"})
	}
}
func verifNoErr(err error, msg string) { VerifNoErr(err, msg) }

// VerifDebugf prints during native replays (VERIF_DEBUG set); a no-op for the executor.
func VerifDebugf(format string, args ...interface{}) {
	if os.Getenv("VERIF_DEBUG") != "" {
		fmt.Printf("VERIF-DEBUG "+format+"\n", args...)
	}
}
func verifDebugf(format string, args ...interface{}) { VerifDebugf(format, args...) }

// VerifProtect/VerifUnprotect: executor-only write barrier (C20 frame check).
func VerifProtect(x interface{}) {}
func VerifUnprotect()            {}

// VerifConsumerScript tells the executor how the single consumer of a
// producer goroutine behaves (receives `budget` values, then cancels); natively
// the real goroutines run and this is a no-op.
func VerifConsumerScript(budget int, cancels bool) {}

func VerifTempName(base string) string { return "/ghost/" + base }
