//go:build verif

package db

// C07 / C06 (pager part): the real unix pager against the POSIX record-lock
// model, for every lock state of a foreign SQLite connection.

var vhDBName = verifTempName("vh-c07.db")

func vhWriteDB() {
	pg := vhHeaderPage(512, 1, 1)
	verifSetFile(vhDBName, pg, 512, 0)
}

func vhJournal(present bool) {
	if !present {
		verifSetFile(vhDBName+"-journal", nil, 0, 1)
		return
	}
	// a journal SQLite would play back: magic, sector size 512, page size 512
	hdr := make([]byte, 1024)
	copy(hdr, vhJournalMagic[:])
	hdr[11] = 1            // nRec
	hdr[19] = 1            // mxPg
	hdr[22], hdr[23] = 2, 0 // sector 512
	hdr[26], hdr[27] = 2, 0 // page 512
	verifSetFile(vhDBName+"-journal", hdr, 1024, 0)
}

//verif:prop C07,C20
//verif:witnesses 10
//verif:bounds foreign connection in each of UNLOCKED / SHARED / RESERVED / PENDING / EXCLUSIVE x hot-looking journal present or absent; operations: open, RLock, table listing, RUnlock, two more RLock/RUnlock transactions on the same handle, Close on the real unix pager
func VH_C07_states() {
	state := verifChoice(5)
	journal := verifChoice(2) == 1
	vhWriteDB()
	vhJournal(journal)
	// what a SQLite connection in that state holds
	verifSetForeignLocks(vhDBName, state >= 3, state >= 2, state >= 1 && state <= 3, state == 4)
	d, err := OpenFile(vhDBName)
	writerActive := state >= 2 // RESERVED or more: the journal belongs to a live transaction
	if journal && !writerActive {
		verifAssert(err == ErrHotJournal, "hot journal and no live writer: refused at open")
		verifReach("hot")
		return
	}
	verifNoErr(err, "open succeeds")
	if err != nil {
		return
	}
	err = d.RLock()
	if state >= 3 {
		verifAssert(err != nil, "PENDING or EXCLUSIVE held by a writer: the read is refused")
		verifAssert(verifOwnLock(vhDBName, sharedFirstC, 510) == 0, "no shared lock taken")
		verifAssert(verifOwnLock(vhDBName, pendingByteC, 1) == 0, "pending byte not left locked")
		verifReach("busy")
		d.Close()
		return
	}
	verifNoErr(err, "UNLOCKED / SHARED / RESERVED: the read lock is granted")
	if err != nil {
		return
	}
	verifAssert(verifOwnLock(vhDBName, sharedFirstC, 510) == 1, "SHARED lock held during the transaction")
	verifAssert(verifOwnLock(vhDBName, pendingByteC, 1) == 0, "pending byte released again")
	names, err := d.Tables()
	verifNoErr(err, "reading under RESERVED/SHARED/UNLOCKED works (no hot-journal error while a writer is live)")
	verifAssert(len(names) == 0, "committed content is served")
	verifAssert(verifOwnLock(vhDBName, sharedFirstC, 510) == 1, "SHARED lock still held after reading")
	d.RUnlock()
	verifAssert(verifOwnLock(vhDBName, sharedFirstC, 510) == 0, "SHARED lock released by RUnlock")
	// a long-lived handle: every later transaction takes and releases the lock
	// like the first one (the foreign connection is still in the same state)
	for txn := 0; txn < 2; txn++ {
		verifNoErr(d.RLock(), "later transaction: the read lock is granted again")
		verifAssert(verifOwnLock(vhDBName, sharedFirstC, 510) == 1, "SHARED lock held during a later transaction of the same handle")
		verifAssert(verifOwnLock(vhDBName, pendingByteC, 1) == 0, "pending byte released again in a later transaction")
		d.RUnlock()
		verifAssert(verifOwnLock(vhDBName, sharedFirstC, 510) == 0, "SHARED lock released after a later transaction")
	}
	d.Close()
	verifReach("end")
}

const (
	pendingByteC = 0x40000000
	sharedFirstC = pendingByteC + 2
)

// C06 (pager part): several handles of one process on the same file. The
// representation invariant of the unix pager — "readLock != nil implies the
// process holds F_RDLCK on the shared range" — must survive whatever the other
// handles of the process do.
//verif:witnesses 12
//verif:bounds two handles on one file in one process; schedules of 3 operations after "open h1; h1.RLock" drawn from {open h2, h2.RLock, h2.RUnlock, h2.Close}; no foreign locks
func VH_C06_two_handles() {
	vhWriteDB()
	vhJournal(false)
	verifSetForeignLocks(vhDBName, false, false, false, false)
	h1, err := OpenFile(vhDBName)
	verifNoErr(err, "open h1")
	verifNoErr(h1.RLock(), "h1.RLock")
	var h2 *Database
	locked2 := false
	for step := 0; step < 3; step++ {
		op := verifChoice(4)
		done := false
		switch op {
		case 0:
			if h2 == nil {
				done = true
				h2, err = OpenFile(vhDBName)
				verifNoErr(err, "open h2")
			}
		case 1:
			if h2 != nil && !locked2 {
				done = true
				verifNoErr(h2.RLock(), "h2.RLock")
				locked2 = true
			}
		case 2:
			if h2 != nil && locked2 {
				done = true
				h2.RUnlock()
				locked2 = false
			}
		case 3:
			if h2 != nil {
				done = true
				h2.Close()
				h2, locked2 = nil, false
			}
		}
		// h1 is inside a read transaction throughout
		held := verifOwnLock(vhDBName, sharedFirstC, 510) == 1
		if !done {
			continue
		}
		if step < 2 {
			// judged only as the LAST step of a schedule (every operation is the
			// last step of some schedule); earlier losses are repaired so that the
			// last step is judged on its own
			if !held {
				h1.RUnlock()
				verifNoErr(h1.RLock(), "h1 re-locks")
			}
			continue
		}
		switch op {
		case 0:
			verifAssert(held, "h1's SHARED lock survives opening another handle on the file in the same process")
		case 1:
			verifAssert(held, "h1's SHARED lock survives RLock on another handle of the same process")
		case 2:
			verifAssert(held, "h1's SHARED lock survives RUnlock on another handle of the same process")
		case 3:
			verifAssert(held, "h1's SHARED lock survives Close of another handle of the same process")
		}
	}
	h1.RUnlock()
	verifReach("end")
}

// C08 on the real unix pager: a writer grows the file after the handle mapped
// it; the pages added by that commit must be readable in the next transaction.
//verif:prop C08,C07,C06
//verif:witnesses 4
//verif:bounds file of 1 page at open (empty schema); a commit adds a table whose root is the new page 2 (row value symbolic) and bumps the counters; real filePager over the ghost file
func VH_C08_growth() {
	name := verifTempName("vh-c08-grow.db")
	f := VerifNewFile(512)
	content := make([]byte, 1024)
	copy(content, f.Page(1))
	verifSetFile(name, content, 512, 0)
	verifSetFile(name+"-journal", nil, 0, 1)
	verifSetForeignLocks(name, false, false, false, false)
	d, err := OpenFile(name)
	verifNoErr(err, "open")
	verifNoErr(d.RLock(), "first transaction")
	names, err := d.Tables()
	verifAssert(err == nil && len(names) == 0, "empty schema at first")
	d.RUnlock()

	// the commit: page 2 appended, sqlite_master gets a row, counters change
	root := f.AddPage()
	v := verifInt64()
	f.Master([]VerifMasterRow{{Typ: "table", Name: "t", Tbl: "t", Root: root, SQL: "CREATE TABLE t (a)"}})
	f.TableLeaf(root, []int64{1}, 1, [][]byte{VerifRecord(v)})
	f.SetCounters(2, 2)
	copy(content, f.Page(1))
	copy(content[512:], f.Page(2))
	verifSetFile(name, content, 1024, 0)

	verifNoErr(d.RLock(), "second transaction")
	t, err := d.Table("t")
	verifNoErr(err, "the new table is visible")
	if err == nil {
		var got []int64
		err = t.Scan(func(_ int64, r Record) bool {
			n, _ := r[0].(int64)
			got = append(got, n)
			return false
		})
		verifNoErr(err, "pages added by the commit are readable")
		verifAssert(len(got) == 1 && got[0] == v, "the committed row is returned")
	}
	// C06/C07: however the page beyond the old mapping was obtained, the
	// transaction still holds its SHARED lock (closing any descriptor of the file
	// would have dropped it)
	verifAssert(verifOwnLock(name, sharedFirstC, 510) == 1, "SHARED lock still held after reading pages beyond the size mapped at open")
	d.RUnlock()
	verifAssert(verifOwnLock(name, sharedFirstC, 510) == 0, "SHARED lock released by RUnlock")
	d.Close()
	verifReach("end")
}

// C08 at the page cache: whatever the cache does when it is full, after clear()
// (which resolveDirty calls when another connection has committed) it may have
// forgotten a page but must never hand out a page object cached BEFORE the clear,
// nor another page's object. The limit is a constructor parameter, so small
// limits exercise the eviction path the 100-page production limit has.
//verif:prop C08
//verif:bounds limits 1..3; limit+1..limit+2 set() calls before the clear and 0..2 after it, page numbers symbolic in 1..4; one get() of a symbolic page number afterwards: nil, or the object of the last set() of that page since the clear
func VH_C08_cache() {
	limit := 1 + verifChoice(3)
	c := newBtreeCache(limit)
	before := limit + 1 + verifChoice(2)
	tag := 0
	for i := 0; i < before; i++ {
		p := verifInt()
		verifAssume(p >= 1 && p <= 4)
		tag++
		c.set(p, tag)
	}
	c.clear()
	after := verifChoice(3)
	var ps, ts [2]int
	for i := 0; i < after; i++ {
		p := verifInt()
		verifAssume(p >= 1 && p <= 4)
		tag++
		c.set(p, tag)
		ps[i], ts[i] = p, tag
	}
	q := verifInt()
	verifAssume(q >= 1 && q <= 4)
	got := c.get(q)
	want := 0 // tag of the last set(q) since the clear
	for i := 0; i < after; i++ {
		if ps[i] == q {
			want = ts[i]
		}
	}
	if got != nil {
		g, ok := got.(int)
		verifAssert(ok && g == want, "a cached page object is the one last stored for that page since the cache was cleared")
	}
	verifReach("end")
}

// C08 while ANOTHER writer has a transaction pending: a commit happened since
// the handle last looked, and now a second writer holds RESERVED with a valid
// journal on disk. The header must still be re-read (the journal only says
// "do not treat me as hot", not "nothing changed").
//verif:prop C08
//verif:bounds one handle over a copying pager: read (empty schema); commit adding table t (new page 2, counters changed); then a hot-looking journal present or absent x RESERVED held or not; the next read lists t (or is refused as hot when no writer is live)
func VH_C08_pending_writer() {
	f := VerifNewFile(512)
	p := &VerifPager{IDs: []int{1}, Bufs: [][]byte{append([]byte(nil), f.Page(1)...)}}
	db := &Database{journal: vhJournalName, l: p, dirty: true, btreeCache: newBtreeCache(CachePages)}
	verifSetFile(vhJournalName, nil, 0, 1)
	verifAssume(db.RLock() == nil)
	names, err := db.Tables()
	verifAssert(err == nil && len(names) == 0, "empty schema at first")
	db.RUnlock()

	// a commit by another connection
	root := f.AddPage()
	f.Master([]VerifMasterRow{{Typ: "table", Name: "t", Tbl: "t", Root: root, SQL: "CREATE TABLE t (a)"}})
	f.TableLeaf(root, []int64{1}, 1, [][]byte{VerifRecord(verifInt64())})
	f.SetCounters(2, 2)
	p.Bufs[0] = append([]byte(nil), f.Page(1)...)
	p.IDs = append(p.IDs, 2)
	p.Bufs = append(p.Bufs, append([]byte(nil), f.Page(2)...))

	// a second writer's pending transaction
	journal := verifBool()
	if journal {
		hdr := make([]byte, 1024)
		copy(hdr, vhJournalMagic[:])
		hdr[11] = 1
		hdr[19] = 1
		hdr[22], hdr[23] = 2, 0
		hdr[26], hdr[27] = 2, 0
		verifSetFile(vhJournalName, hdr, 1024, 0)
	}
	p.Reserved = verifBool()
	verifAssume(db.RLock() == nil)
	names, err = db.Tables()
	if journal && !p.Reserved {
		verifAssert(err == ErrHotJournal, "hot journal without a live writer refuses the transaction")
		verifReach("refused")
	} else {
		verifAssert(err == nil && len(names) == 1, "the committed table is visible, pending writer or not")
		verifReach("visible")
	}
	db.RUnlock()
	verifReach("end")
}
