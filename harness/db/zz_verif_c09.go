//go:build verif

package db

// C09: the hot-journal decision against a reference model of SQLite's
// hasHotJournal + first readJournalHdr of pager_playback (pager.c), over ANY
// journal bytes and length (a superset of every crash state of a writer).

var vhJournalName = verifTempName("vh-c09-journal")

var vhJournalMagic = [8]byte{0xd9, 0xd5, 0x05, 0xf9, 0x20, 0xa1, 0x63, 0xd7}

// rmJournalHeaderOK: would SQLite's readJournalHdr accept the first header
// (so that playback may touch the database)? content = first 28 bytes,
// length = journal size.
func rmJournalHeaderOK(c []byte, length int64) bool {
	if length < 28 {
		return false
	}
	var diff byte
	for i := 0; i < 8; i++ {
		diff |= c[i] ^ vhJournalMagic[i]
	}
	sector := be32(c, 20)
	pagesz := be32(c, 24)
	pow2 := func(x uint32) bool { return x&(x-1) == 0 }
	sectorOK := sector >= 32 && sector <= 0x10000 && pow2(sector)
	pageOK := pagesz >= 512 && pagesz <= 0x10000 && pow2(pagesz)
	// the header occupies one full sector
	return verifAnd(verifAnd(diff == 0, verifAnd(sectorOK, pageOK)), length >= int64(sector))
}

//verif:prop C09,C05
//verif:bounds journal absent | present with any first 28 bytes and any length 0..200000; RESERVED lock held or not (C05: the journal is hostile input too - no panic, no unbounded allocation)
func VH_C09_decision() {
	mode := verifChoice(2) // 0 present, 1 absent
	content := verifBytes(28)
	length := verifInt()
	verifAssume(length >= 0 && length <= 200000)
	// W1 (writer-side fact): a real VFS reports a sector size >= 512
	sector := be32(content, 20)
	verifNote("W1: the sector-size field of a journal written by SQLite is >= 512 (sqlittle treats smaller values as not-a-journal; SQLite accepts >= 32)")
	verifAssume(sector >= 512 || sector < 32 || length < 28)
	n := length
	if n > 28 {
		n = 28
	}
	verifSetFile(vhJournalName, content, n, mode)
	vhPadFile(vhJournalName, length)

	hot, err := validJournal(vhJournalName)
	verifAssert(err == nil, "probing the journal does not fail")
	replay := mode == 0 && rmJournalHeaderOK(content, int64(length))
	// safety: whenever SQLite's recovery could touch the database, sqlittle says "hot"
	if replay {
		verifAssert(hot, "journal that SQLite would play back is reported hot")
		verifReach("hot")
	}
	// liveness: benign leftovers do not block reading
	if mode == 1 || length == 0 || length < 28 || content[0] == 0 {
		verifAssert(!hot, "absent/empty/short/zero-headered journal is not hot")
		verifReach("benign")
	}
	verifReach("end")
}

// resolveDirty: hot journal without a RESERVED lock => ErrHotJournal before the
// header is interpreted; with a live RESERVED lock => reading proceeds (C07);
// and this is decided anew on every transaction.
//verif:prop C09,C20
//verif:bounds journal state free before each of two transactions (length 28..200000); database header fixed and valid
func VH_C09_every_txn() {
	pg := vhHeaderPage(512, verifUint32(), verifUint32())
	p := &VerifPager{IDs: []int{1}, Bufs: [][]byte{pg}}
	db := &Database{journal: vhJournalName, l: p, dirty: true, btreeCache: newBtreeCache(CachePages)}
	for round := 0; round < 2; round++ {
		mode := verifChoice(2)
		content := verifBytes(28)
		length := verifInt()
		verifAssume(length >= 28 && length <= 200000)
		verifSetFile(vhJournalName, content, 28, mode)
		vhPadFile(vhJournalName, length)
		p.Reserved = verifBool()
		verifAssume(db.RLock() == nil)
		reads0 := p.Reads
		err := db.resolveDirty()
		hot, _ := validJournal(vhJournalName)
		if hot && !p.Reserved {
			verifAssert(err == ErrHotJournal, "hot journal without a live writer refuses the transaction")
			verifAssert(p.Reads == reads0, "no page is read once the journal is found hot")
			verifReach("refused")
		}
		if err == nil {
			verifAssert(!hot || p.Reserved, "reading proceeds only without a hot journal or under a live RESERVED lock")
			verifReach("proceed")
		}
		db.RUnlock()
	}
	verifReach("end")
}
