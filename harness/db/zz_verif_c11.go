//go:build verif

package db

// C11: sqlittle's comparison against a reference model of SQLite's value
// order (vdbeaux.c sqlite3MemCompare / sqlite3IntFloatCompare, main.c
// nocaseCollatingFunc / rtrimCollFunc / binCollFunc), written independently.

import "unicode/utf8"

func vhSign(n int) int { return verifIte(n < 0, -1, verifIte(n > 0, 1, 0)) }

func vhCmpLen(a, b int) int {
	if a < b {
		return -1
	}
	if a > b {
		return 1
	}
	return 0
}

// memcmp over the common prefix, then length (binCollFunc, blobs)
func rmMemcmp(a, b []byte) int {
	n := len(a)
	if len(b) < n {
		n = len(b)
	}
	r := vhCmpLen(len(a), len(b))
	for i := n - 1; i >= 0; i-- {
		r = verifIte(a[i] < b[i], -1, verifIte(a[i] > b[i], 1, r))
	}
	return r
}

func rmLower(c byte) int {
	return int(c) + verifIte(verifAnd(c >= 'A', c <= 'Z'), 32, 0)
}

// nocaseCollatingFunc: sqlite3StrNICmp over min(n1,n2) bytes (which stops at a
// NUL in the left operand), then the length difference.
func rmNocase(a, b []byte) int {
	n := len(a)
	if len(b) < n {
		n = len(b)
	}
	lc := vhCmpLen(len(a), len(b))
	r := lc
	for i := n - 1; i >= 0; i-- {
		ca, cb := rmLower(a[i]), rmLower(b[i])
		d := verifIte(ca < cb, -1, verifIte(ca > cb, 1, 0))
		r = verifIte(d != 0, d, verifIte(a[i] == 0, lc, r))
	}
	return r
}

// rtrimCollFunc: ignore trailing spaces (0x20 only), then binary.
func rmRtrim(a, b []byte) int {
	trim := func(s []byte) int {
		l := len(s)
		trailing := true
		for i := len(s) - 1; i >= 0; i-- {
			trailing = verifAnd(trailing, s[i] == ' ')
			l -= verifIte(trailing, 1, 0)
		}
		return l
	}
	la, lb := trim(a), trim(b)
	n := len(a)
	if len(b) < n {
		n = len(b)
	}
	r := verifIte(la < lb, -1, verifIte(la > lb, 1, 0))
	for i := n - 1; i >= 0; i-- {
		both := verifAnd(i < la, i < lb)
		r = verifIte(both, verifIte(a[i] < b[i], -1, verifIte(a[i] > b[i], 1, r)), r)
	}
	return r
}

// sqlite3IntFloatCompare
func rmIntFloat(i int64, r float64) int {
	if r < -9223372036854775808.0 {
		return 1
	}
	if r >= 9223372036854775808.0 {
		return -1
	}
	y := int64(r)
	if i < y {
		return -1
	}
	if i > y {
		return 1
	}
	s := float64(i)
	if s < r {
		return -1
	}
	if s > r {
		return 1
	}
	return 0
}

func rmClass(v interface{}) int {
	switch v.(type) {
	case nil:
		return 0
	case int64, float64:
		return 1
	case string:
		return 2
	default:
		return 3
	}
}

// rmCompare: coll 0 binary, 1 nocase, 2 rtrim
func rmCompare(a, b interface{}, coll int) int {
	ca, cb := rmClass(a), rmClass(b)
	if ca != cb {
		return vhCmpLen(ca, cb)
	}
	switch x := a.(type) {
	case nil:
		return 0
	case int64:
		switch y := b.(type) {
		case int64:
			return verifIte(x < y, -1, verifIte(x > y, 1, 0))
		case float64:
			return rmIntFloat(x, y)
		}
	case float64:
		switch y := b.(type) {
		case int64:
			return -rmIntFloat(y, x)
		case float64:
			return verifIte(x < y, -1, verifIte(x > y, 1, 0))
		}
	case string:
		y := b.(string)
		switch coll {
		case 1:
			return rmNocase([]byte(x), []byte(y))
		case 2:
			return rmRtrim([]byte(x), []byte(y))
		}
		return rmMemcmp([]byte(x), []byte(y))
	case []byte:
		return rmMemcmp(x, b.([]byte))
	}
	return 0
}

var vhCollNames = [3]string{"binary", "nocase", "rtrim"}

// vhValue: an arbitrary storable value. cls selects the storage class.
func vhValueOf(cls, maxLen int) interface{} {
	switch cls {
	case 0:
		return nil
	case 1:
		return verifInt64()
	case 2:
		f := verifFloat64()
		verifAssume(f == f) // SQLite never stores NaN
		return f
	case 3:
		n := verifChoice(maxLen + 1)
		s := verifString(n)
		verifAssume(utf8.ValidString(s))
		return s
	default:
		n := verifChoice(maxLen + 1)
		return verifBytes(n)
	}
}

func vhMaxLen() int { return 2 + verifTier() }

//verif:bounds all 25 storage-class pairs; int64/float64 full range (no NaN); text (valid UTF-8) and blobs of 0..2 bytes (thorough: 0..3), bytes free incl. NUL; 3 collations (for text x text, and for the pairs with a blob, where the collation must not matter)
//verif:shards 37
func VH_C11_compare() {
	sh := verifShard(37)
	var a, b interface{}
	coll := 0
	if sh < 25 {
		ca, cb := sh/5, sh%5
		if ca == 3 && cb == 3 {
			verifReach("end") // text x text: shards 25..36
			return
		}
		a, b = vhValueOf(ca, vhMaxLen()), vhValueOf(cb, vhMaxLen())
		if ca >= 3 && cb >= 3 {
			// a collation applies to text against text only: with a blob on either
			// side it must make no difference
			coll = verifChoice(3)
		}
	} else {
		// text x text, one shard per (collation, length of a)
		coll = (sh - 25) % 3
		la := (sh - 25) / 3
		if la > vhMaxLen() {
			verifReach("end")
			return
		}
		sa := verifString(la)
		verifAssume(utf8.ValidString(sa))
		a, b = sa, vhValueOf(3, vhMaxLen())
	}
	got := compare(a, b, CollateFuncs[vhCollNames[coll]])
	want := rmCompare(a, b, coll)
	verifAssert(vhSign(got) == want, "compare agrees with SQLite's order")
	back := compare(b, a, CollateFuncs[vhCollNames[coll]])
	verifAssert(vhSign(back) == -vhSign(got), "antisymmetry")
	verifReach("end")
}

// Equals / Search against the reference order, keys of 0..2 columns, records of
// 0..3 columns, per-column DESC and collation.
//verif:bounds key 0..2 columns x record 0..2 columns (thorough: 0..3); values NULL/int64/text of 1 byte (two-column keys: NULL/int64; thorough: + float64 for keys of <= 1 column); DESC per key column; collation binary or nocase
//verif:shards 12
//verif:prop C11,C20
func VH_C11_search_equals() {
	sh := verifShard(12)
	nk, nr := sh/4, sh%4
	if nr == 3 && verifTier() == 0 {
		verifReach("end")
		return
	}
	key := make(Key, nk)
	colls := make([]int, nk)
	classes := [4]int{0, 1, 3, 2}
	ncls := 3 + verifTier()
	if nk == 2 {
		ncls = 2 // two-column keys over NULL/int64 only (both tiers)
	}
	for i := range key {
		cls := classes[verifChoice(ncls)]
		key[i].V = vhValueOf(cls, 1)
		key[i].Desc = verifBool()
		if cls == 3 {
			colls[i] = verifChoice(2)
			if colls[i] != 0 {
				key[i].Collate = vhCollNames[colls[i]]
			}
		}
	}
	rec := make(Record, nr)
	for i := range rec {
		rec[i] = vhValueOf(classes[verifChoice(ncls)], 1)
	}
	// reference: lexicographic over the key's columns
	eq, ge := true, true // ge: record >= key in the DESC-adjusted order
	decided := false
	for i := range key {
		if i >= nr {
			// record shorter than the key: neither equal nor >=
			if !decided {
				ge = false
			}
			eq = false
			break
		}
		c := rmCompare(key[i].V, rec[i], colls[i])
		if c != 0 {
			eq = false
		}
		if !decided && c != 0 {
			decided = true
			// key < rec  (c<0) => rec >= key for ASC; inverted for DESC
			ge = (c < 0) != key[i].Desc
		}
	}
	verifAssert(Equals(key, rec) == eq, "Equals == equal on the key's columns")
	verifAssert(Search(key, rec) == ge, "Search == record not less than key")
	verifReach("end")
}

// Two TEXT key columns with their own collations: a column's collation (and
// DESC flag) must not carry over to its neighbour. Concrete spellings (a case
// split, no solver variables): symbolic text in both columns at once was beyond
// the solver (no verdict in 15 minutes).
//verif:prop C11,C03,C13
//verif:shards 9
//verif:bounds key of 2 text columns against a record of 2 text columns, every text one of "b", "B", "b ", "c"; per key column: collation binary / nocase / rtrim and ASC / DESC
func VH_C11_two_text_columns() {
	texts := [4]string{"b", "B", "b ", "c"}
	sh := verifShard(9)
	colls := [2]int{sh / 3, sh % 3}
	key := make(Key, 2)
	for i := range key {
		key[i].V = texts[verifChoice(4)]
		key[i].Desc = verifChoice(2) == 1
		if colls[i] != 0 {
			key[i].Collate = vhCollNames[colls[i]]
		}
	}
	rec := Record{texts[verifChoice(4)], texts[verifChoice(4)]}
	eq, ge := true, true
	decided := false
	for i := range key {
		c := rmCompare(key[i].V, rec[i], colls[i])
		if c != 0 {
			eq = false
		}
		if !decided && c != 0 {
			decided = true
			ge = (c < 0) != key[i].Desc
		}
	}
	verifAssert(Equals(key, rec) == eq, "Equals == equal on both columns, each under its own collation")
	verifAssert(Search(key, rec) == ge, "Search == record not less than key, each column under its own collation and direction")
	verifReach("end")
}
