//go:build verif

package db

// C10: newCreateTable / addCreateIndex against a reference model of SQLite's
// rules for CREATE TABLE (build.c: sqlite3AddPrimaryKey, sqlite3CreateIndex's
// duplicate-constraint check, convertToWithoutRowidTable).

import (
	"strings"

	"github.com/alicebob/sqlittle/sql"
)

type rmIdxCol struct {
	col  int
	coll string // lower case, "" = BINARY/default
	desc bool
}
type rmIndex struct {
	name string
	cols []rmIdxCol
	pk   bool
}
type rmSchema struct {
	rowidAlias int // -1 none
	indexes    []rmIndex
	pkCols     []rmIdxCol // WITHOUT ROWID
	pkName     string
}

func rmIsInteger(t string) bool { return strings.ToUpper(t) == "INTEGER" }

func rmCollOf(ct sql.CreateTableStmt, col int, explicit string) string {
	if explicit != "" {
		return strings.ToLower(explicit)
	}
	return strings.ToLower(ct.Columns[col].Collate)
}

func rmColIndex(ct sql.CreateTableStmt, name string) int {
	for i, c := range ct.Columns {
		if strings.EqualFold(c.Name, name) {
			return i
		}
	}
	return -1
}

func normColl(c string) string {
	if c == "binary" {
		return ""
	}
	return c
}

// rmBuild: what SQLite makes of the statement.
func rmBuild(ct sql.CreateTableStmt) rmSchema {
	s := rmSchema{rowidAlias: -1}
	auto := 1
	latePK := -1
	latePKDesc := false
	addUnique := func(cols []rmIdxCol, pk bool) {
		for ei, e := range s.indexes {
			if len(e.cols) != len(cols) {
				continue
			}
			same := true
			for k := range cols {
				if e.cols[k].col != cols[k].col || normColl(e.cols[k].coll) != normColl(cols[k].coll) {
					same = false
				}
			}
			if same {
				if pk {
					s.pkName = e.name
					if ct.WithoutRowid {
						// the existing UNIQUE index is promoted to be the primary key
						s.pkCols = e.cols
						s.indexes = append(s.indexes[:ei:ei], s.indexes[ei+1:]...)
					}
				}
				return // an equivalent UNIQUE index exists: the constraint adds nothing
			}
		}
		if ct.WithoutRowid && s.pkCols != nil && !pk && len(s.pkCols) == len(cols) {
			same := true
			for k := range cols {
				if s.pkCols[k].col != cols[k].col || normColl(s.pkCols[k].coll) != normColl(cols[k].coll) {
					same = false
				}
			}
			if same {
				return
			}
		}
		name := "sqlite_autoindex_" + ct.Table + "_" + string(rune('0'+auto))
		auto++
		if ct.WithoutRowid && pk {
			s.pkCols = cols
			// an earlier UNIQUE over the same columns is the same index
			for i, e := range s.indexes {
				if len(e.cols) != len(cols) {
					continue
				}
				same := true
				for k := range cols {
					if e.cols[k].col != cols[k].col || normColl(e.cols[k].coll) != normColl(cols[k].coll) {
						same = false
					}
				}
				if same {
					s.indexes = append(s.indexes[:i], s.indexes[i+1:]...)
					break
				}
			}
			return
		}
		s.indexes = append(s.indexes, rmIndex{name: name, cols: cols, pk: pk})
		if pk {
			s.pkName = name
		}
	}
	for i, c := range ct.Columns {
		if c.PrimaryKey {
			if rmIsInteger(c.Type) && c.PrimaryKeyDir == sql.Asc {
				// sqlite3AddPrimaryKey: pTab->iPKey = iCol; no index yet. For a
				// WITHOUT ROWID table the PK index is made at the very end
				// (convertToWithoutRowidTable) from the column alone.
				if ct.WithoutRowid {
					latePK = i
				} else {
					s.rowidAlias = i
				}
			} else {
				addUnique([]rmIdxCol{{col: i, coll: rmCollOf(ct, i, ""), desc: c.PrimaryKeyDir == sql.Desc}}, true)
			}
		}
		if c.Unique {
			addUnique([]rmIdxCol{{col: i, coll: rmCollOf(ct, i, "")}}, false)
		}
	}
	for _, tc := range ct.Constraints {
		conv := func(ics []sql.IndexedColumn) []rmIdxCol {
			var r []rmIdxCol
			for _, ic := range ics {
				ci := rmColIndex(ct, ic.Column)
				r = append(r, rmIdxCol{col: ci, coll: rmCollOf(ct, ci, ic.Collate), desc: ic.SortOrder == sql.Desc})
			}
			return r
		}
		switch x := tc.(type) {
		case sql.TablePrimaryKey:
			if len(x.IndexedColumns) == 1 {
				ci := rmColIndex(ct, x.IndexedColumns[0].Column)
				if rmIsInteger(ct.Columns[ci].Type) {
					if ct.WithoutRowid {
						latePK = ci
						latePKDesc = x.IndexedColumns[0].SortOrder == sql.Desc // iPkSortOrder; the COLLATE is dropped
					} else {
						s.rowidAlias = ci
					}
					continue
				}
			}
			addUnique(conv(x.IndexedColumns), true)
		case sql.TableUnique:
			addUnique(conv(x.IndexedColumns), false)
		}
	}
	if latePK >= 0 {
		// created last: column's own collation, ascending; an equivalent UNIQUE
		// index made earlier is promoted to be the primary key
		addUnique([]rmIdxCol{{col: latePK, coll: rmCollOf(ct, latePK, ""), desc: latePKDesc}}, true)
	}
	return s
}

// vhFlag: a concrete two-way case split (no solver variable)
func vhFlag() bool { return verifChoice(2) == 1 }

var vhTypes = [4]string{"", "INTEGER", "integer", "TEXT"}
var vhColls = [3]string{"", "nocase", "NOCASE"}
var vhNames = [3]string{"a", "b", "c"}

func vhIndexedCols(ncols int) []sql.IndexedColumn {
	n := 1 + verifChoice(2)
	var r []sql.IndexedColumn
	used := [3]bool{}
	for i := 0; i < n && i < ncols; i++ {
		ci := verifChoice(ncols)
		if used[ci] {
			verifAssume(false) // SQLite rejects a column listed twice? (it does not, but keep the space small)
		}
		used[ci] = true
		ic := sql.IndexedColumn{Column: vhNames[ci]}
		if vhFlag() {
			ic.SortOrder = sql.Desc
		}
		if vhFlag() {
			ic.Collate = "nocase"
		}
		r = append(r, ic)
	}
	return r
}

//verif:shards 16
//verif:bounds CREATE TABLE statements of 1..2 columns (thorough: also 3 columns without table constraints): type in {"",INTEGER,integer,TEXT}, column-level PRIMARY KEY (ASC/DESC), UNIQUE, COLLATE in {"",nocase,NOCASE}; 0..1 table constraint PRIMARY KEY/UNIQUE over 1..2 indexed columns with own DESC/COLLATE; WITHOUT ROWID yes/no; restricted to statements SQLite accepts (at most one primary key; WITHOUT ROWID has one)
func VH_C10_table() {
	sh := verifShard(16)
	ncols := 1 + sh%2 + verifTier()*verifChoice(2)
	without := (sh/2)%2 == 1
	firstType := sh / 4
	ct := sql.CreateTableStmt{Table: "t", WithoutRowid: without}
	npk := 0
	for i := 0; i < ncols; i++ {
		ty := firstType
		if i > 0 {
			ty = verifChoice(4)
		}
		c := sql.ColumnDef{Name: vhNames[i], Type: vhTypes[ty], Null: true}
		if npk == 0 && vhFlag() {
			c.PrimaryKey = true
			npk++
			if vhFlag() {
				c.PrimaryKeyDir = sql.Desc
			}
		}
		c.Unique = vhFlag()
		c.Collate = vhColls[verifChoice(3)]
		ct.Columns = append(ct.Columns, c)
	}
	ncons := verifChoice(2)
	if ncols == 3 {
		ncons = 0 // thorough tier: three-column statements carry column constraints only
	}
	for k := 0; k < ncons; k++ {
		if npk == 0 && vhFlag() {
			npk++
			ct.Constraints = append(ct.Constraints, sql.TablePrimaryKey{IndexedColumns: vhIndexedCols(ncols)})
		} else {
			ct.Constraints = append(ct.Constraints, sql.TableUnique{IndexedColumns: vhIndexedCols(ncols)})
		}
	}
	verifAssume(!without || npk == 1)

	want := rmBuild(ct)
	got := newCreateTable(ct)
	verifDebugf("stmt=%+v\n  want=%+v\n  got=%+v", ct, want, *got)

	verifAssert(got.WithoutRowid == without && len(got.Columns) == ncols, "columns and WITHOUT ROWID status")
	for i := range got.Columns {
		verifAssert(got.Columns[i].Column == vhNames[i], "column order")
		verifAssert(got.Columns[i].Rowid == (want.rowidAlias == i), "which column aliases the rowid")
	}
	verifAssert(got.RowidPK == (want.rowidAlias >= 0), "rowid primary key flag")
	sameCols := func(g []IndexColumn, w []rmIdxCol) bool {
		if len(g) != len(w) {
			return false
		}
		for k := range w {
			if !strings.EqualFold(g[k].Column, vhNames[w[k].col]) {
				return false
			}
			if normColl(strings.ToLower(g[k].Collate)) != normColl(w[k].coll) {
				return false
			}
			if (g[k].SortOrder == sql.Desc) != w[k].desc {
				return false
			}
		}
		return true
	}
	if without {
		verifAssert(sameCols(got.PK, want.pkCols), "primary key columns of the WITHOUT ROWID table")
	} else {
		verifAssert(got.PrimaryKey == want.pkName, "name of the primary key index")
	}
	verifAssert(len(got.Indexes) == len(want.indexes), "number of automatic indexes")
	for _, w := range want.indexes {
		g := got.NamedIndex(w.name)
		verifAssert(g != nil, "automatic index name")
		if g != nil {
			verifAssert(sameCols(g.Columns, w.cols), "automatic index columns, collations, directions")
		}
	}
	verifReach("end")
}

// CREATE INDEX statements and definitions that cannot be interpreted, through
// newSchema (text level).
//verif:bounds table t(a TEXT COLLATE nocase, b) with one CREATE INDEX over 1..2 columns, each with optional COLLATE (rtrim) / DESC, or an expression column; plus unparsable / foreign statements as table or index definitions
func VH_C10_indexes() {
	colNames := [2]string{"a", "b"}
	colColl := [2]string{"nocase", ""}
	n := 1 + verifChoice(2)
	list := ""
	var wantCol [2]string
	var wantColl [2]string
	var wantDesc [2]bool
	var isExpr [2]bool
	for j := 0; j < n; j++ {
		if j > 0 {
			list += ", "
		}
		ci := verifChoice(2)
		if verifChoice(4) == 0 {
			isExpr[j] = true
			list += colNames[ci] + " + 1"
		} else {
			wantCol[j] = colNames[ci]
			wantColl[j] = colColl[ci]
			list += colNames[ci]
		}
		if verifChoice(2) == 1 {
			list += " COLLATE rtrim"
			if !isExpr[j] {
				wantColl[j] = "rtrim"
			}
		}
		if verifChoice(2) == 1 {
			list += " DESC"
			wantDesc[j] = true
		}
	}
	master := []sqliteMaster{
		{typ: "table", name: "t", tblName: "t", rootPage: 2, sql: "CREATE TABLE t (a TEXT COLLATE nocase, b)"},
		{typ: "index", name: "i", tblName: "t", rootPage: 3, sql: "CREATE INDEX i ON t (" + list + ")"},
		{typ: "index", name: "broken", tblName: "t", rootPage: 4, sql: "CREATE INDEX broken ON t (a,"},
		{typ: "index", name: "other", tblName: "u", rootPage: 5, sql: "CREATE INDEX other ON u (a)"},
	}
	s, err := newSchema("t", master)
	verifNoErr(err, "schema of a valid table")
	if err != nil {
		return
	}
	verifAssert(len(s.Indexes) == 1, "exactly the table's own interpretable index is reported")
	ix := s.NamedIndex("I")
	verifAssert(ix != nil && len(ix.Columns) == n, "index found by name (case-insensitive) with all its columns")
	if ix != nil && len(ix.Columns) == n {
		for j := 0; j < n; j++ {
			c := ix.Columns[j]
			if isExpr[j] {
				verifAssert(c.Column == "" && c.Expression != "", "expression column is reported as an expression")
			} else {
				verifAssert(c.Column == wantCol[j], "index column name")
				verifAssert(c.Collate == wantColl[j], "index column collation: explicit, else the table column's")
			}
			verifAssert((c.SortOrder == sql.Desc) == wantDesc[j], "index column direction")
		}
	}
	// definitions that cannot be interpreted produce an error, never a schema
	bad := [...]string{"CREATE TABLE t (a,", "CREATE TABLE t", "CREATE INDEX t ON t (a)", "SELECT a FROM t", "CREATE VIRTUAL TABLE t USING fts5(a)", ""}
	k := verifChoice(len(bad))
	_, err = newSchema("t", []sqliteMaster{{typ: "table", name: "t", tblName: "t", rootPage: 2, sql: bad[k]}})
	verifAssert(err != nil, "a table definition that cannot be interpreted is an error")
	_, err = newSchema("nosuch", master)
	verifAssert(err != nil, "unknown table is an error")
	verifReach("end")
}
