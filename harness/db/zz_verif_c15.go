//go:build verif

package db

// C15: header acceptance/rejection over all 100 header bytes, at open and at
// every re-read.

type vhHeaderView struct {
	magicOK, pageLegal           bool
	pageSize                     int
	readVersion, reserved        byte
	maxF, minF, leafF            byte
	change, cookie, format, enc  uint32
	expansionZero                bool
}

func vhViewHeader(b []byte) vhHeaderView {
	var v vhHeaderView
	const magic = "SQLite format 3\x00"
	v.magicOK = true
	for i := 0; i < 16; i++ {
		if b[i] != magic[i] {
			v.magicOK = false
		}
	}
	ps := int(b[16])<<8 | int(b[17])
	if ps == 1 {
		v.pageSize, v.pageLegal = 65536, true
	} else {
		v.pageSize = ps
		v.pageLegal = ps >= 512 && ps <= 32768 && ps&(ps-1) == 0
	}
	v.readVersion, v.reserved = b[19], b[20]
	v.maxF, v.minF, v.leafF = b[21], b[22], b[23]
	v.change = be32(b, 24)
	v.cookie = be32(b, 40)
	v.format = be32(b, 44)
	v.enc = be32(b, 56)
	v.expansionZero = true
	for i := 72; i < 92; i++ {
		if b[i] != 0 {
			v.expansionZero = false
		}
	}
	return v
}

// must be refused (statement of C15)
func (v vhHeaderView) rejectSet() bool {
	return !v.magicOK || !v.pageLegal || v.readVersion != 1 || v.reserved != 0 ||
		v.enc != 1 || v.format < 1 || v.format > 4
}

// must be accepted: everything reading depends on is as sqlittle supports it;
// the other fields (counters, free-list, sizes, stamps, user version,
// application id, write version) are free.
func (v vhHeaderView) acceptSet() bool {
	return v.magicOK && v.pageLegal && v.readVersion == 1 && v.reserved == 0 &&
		v.maxF == 64 && v.minF == 32 && v.leafF == 32 &&
		v.enc == 1 && v.format >= 2 && v.format <= 4 && v.expansionZero
}

//verif:bounds all 100 header bytes free (no bound)
func VH_C15_header() {
	b := verifBytes(100)
	v := vhViewHeader(b)
	h, err := parseHeader(b)
	if v.rejectSet() {
		verifAssert(err != nil, "header in the reject set is refused")
		verifReach("reject")
	}
	if v.acceptSet() {
		verifAssert(err == nil, "header in the accept set is accepted")
		verifAssert(h.PageSize == v.pageSize, "page size decoded")
		verifAssert(h.ChangeCounter == v.change && h.SchemaCookie == v.cookie, "counters decoded")
		verifReach("accept")
	}
	if err == nil {
		verifAssert(h.PageSize == v.pageSize && v.pageLegal, "accepted header yields a legal page size")
	}
	verifReach("end")
}

//verif:bounds short header buffers 0..99 bytes
func VH_C15_short() {
	b := verifBytes(99)
	n := verifInt()
	verifAssume(n >= 0 && n <= 99)
	_, err := parseHeader(b[:n])
	verifAssert(err != nil, "truncated header is refused")
	verifReach("end")
}

// At open: newDatabase on a pager whose first 100 bytes are in the reject set fails.
//verif:bounds page 1 = 512 free bytes
func VH_C15_open() {
	pg := verifBytes(512)
	v := vhViewHeader(pg)
	verifAssume(v.rejectSet())
	p := &VerifPager{IDs: []int{1}, Bufs: [][]byte{pg}, Locked: true}
	_, err := newDatabase(p, "")
	verifAssert(err != nil, "open refuses a header in the reject set")
	verifAssert(p.Reads == 1, "nothing but the header probe is read")
	verifReach("end")
}

// Re-read: a handle that was valid; the header then becomes rejected; every
// entry point returns the error, calls no callback, reads no further page.
//verif:bounds page 1 = 100 free header bytes + a concrete empty leaf; entry points Table.Scan, Table.Rowid, Index.Scan, ScanMin, ScanEq, ScanRange, Schema, Tables
func VH_C15_reread() {
	// the 100 header bytes are free; the rest of page 1 is a concrete empty
	// sqlite_master leaf (it is only ever looked at by a tree that fails to
	// refuse the header, and then it should not cost an exploration of 412 bytes)
	pg := make([]byte, 512)
	copy(pg, verifBytes(100))
	pg[100] = 0x0d
	pg[105], pg[106] = 0x02, 0x00
	v := vhViewHeader(pg)
	verifAssume(v.rejectSet())
	// page 2 must never be read: its content is a concrete empty table leaf, so
	// that a tree which does go on after a rejected header fails the assertions
	// below at once instead of exploring 512 free bytes
	pg2 := make([]byte, 512)
	pg2[0] = 0x0d
	pg2[5], pg2[6] = 0x02, 0x00
	p := &VerifPager{IDs: []int{1, 2}, Bufs: [][]byte{pg, pg2}}
	db := &Database{l: p, header: &header{PageSize: 512, ChangeCounter: verifUint32(), SchemaCookie: verifUint32()}, btreeCache: newBtreeCache(CachePages)}
	// a page object left in the cache from the earlier, valid state
	db.btreeCache.set(2, &tableLeaf{})
	db.objectCache = &objectCache{objects: []sqliteMaster{{typ: "table", name: "t", tblName: "t", rootPage: 2, sql: "CREATE TABLE t (a)"}}}
	verifAssume(db.RLock() == nil)
	calls := 0
	var err error
	t := &Table{db: db, root: 2}
	in := &Index{db: db, root: 2}
	switch verifChoice(8) {
	case 0:
		err = t.Scan(func(int64, Record) bool { calls++; return false })
	case 1:
		_, err = t.Rowid(verifInt64())
	case 2:
		err = in.Scan(func(Record) bool { calls++; return false })
	case 3:
		err = in.ScanMin(Key{{V: verifInt64()}}, func(Record) bool { calls++; return false })
	case 4:
		err = in.ScanEq(Key{{V: verifInt64()}}, func(Record) bool { calls++; return false })
	case 5:
		err = in.ScanRange(Key{{V: verifInt64()}}, Key{{V: verifInt64()}}, func(Record) bool { calls++; return false })
	case 6:
		_, err = db.Schema("t")
	case 7:
		_, err = db.Tables()
	}
	db.RUnlock()
	verifAssert(err != nil, "operation on a handle whose header became invalid fails")
	verifAssert(calls == 0, "no row is delivered")
	verifAssert(p.Reads == 1, "only the header probe is read")
	verifReach("end")
}
