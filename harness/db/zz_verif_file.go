//go:build verif

package db

// A reference encoder of the SQLite file format (fileformat2.html §1.6, §2)
// for harnesses that drive the real code from page bytes: the layout (page
// types, cell counts, offsets, serial types) is concrete, the values stored
// are solver variables.

// VerifVarint appends v as a varint of exactly n bytes (1..9). For n < 9 the
// caller must keep 0 <= v < 2^(7n); n == 9 encodes any 64-bit value.
func VerifVarint(b []byte, v int64, n int) []byte {
	u := uint64(v)
	if n == 9 {
		for i := 0; i < 8; i++ {
			b = append(b, byte(u>>(57-7*uint(i)))|0x80)
		}
		return append(b, byte(u))
	}
	for i := n - 1; i >= 0; i-- {
		c := byte(u>>(7*uint(i))) & 0x7f
		if i > 0 {
			c |= 0x80
		}
		b = append(b, c)
	}
	return b
}

// VerifVarintLen: minimal length class of a concrete non-negative value.
func VerifVarintLen(v int64) int {
	if v < 0 {
		return 9
	}
	n := 1
	for u := uint64(v) >> 7; u != 0 && n < 9; u >>= 7 {
		n++
	}
	return n
}

// VerifRecord encodes a record. Supported values: nil, int64 (8-byte serial
// type 6), float64 (serial 7), string, []byte. Lengths are concrete.
func VerifRecord(vals ...interface{}) []byte {
	var hdr, body []byte
	for _, v := range vals {
		switch x := v.(type) {
		case nil:
			hdr = append(hdr, 0)
		case int64:
			hdr = append(hdr, 6)
			body = vhPutInt64(body, x)
		case float64:
			hdr = append(hdr, 7)
			body = vhPutInt64(body, int64(vhFloatBits(x)))
		case string:
			st := int64(13 + 2*len(x))
			hdr = VerifVarint(hdr, st, VerifVarintLen(st))
			body = append(body, x...)
		case []byte:
			st := int64(12 + 2*len(x))
			hdr = VerifVarint(hdr, st, VerifVarintLen(st))
			body = append(body, x...)
		default:
			panic("VerifRecord: unsupported value")
		}
	}
	hs := int64(len(hdr) + 1)
	if hs > 127 {
		hs++
	}
	rec := VerifVarint(nil, hs, VerifVarintLen(hs))
	rec = append(rec, hdr...)
	return append(rec, body...)
}

type VerifFile struct {
	PageSize int
	Pager    *VerifPager
	Change   uint32
	Cookie   uint32
}

func VerifNewFile(pageSize int) *VerifFile {
	f := &VerifFile{PageSize: pageSize, Pager: &VerifPager{}, Change: 1, Cookie: 1}
	f.Pager.IDs = []int{1}
	f.Pager.Bufs = [][]byte{vhHeaderPage(pageSize, 1, 1)}
	return f
}

func (f *VerifFile) SetCounters(change, cookie uint32) {
	f.Change, f.Cookie = change, cookie
	b := f.Pager.Bufs[0]
	put32(b, 24, change)
	put32(b, 40, cookie)
}

func put32(b []byte, off int, v uint32) {
	b[off], b[off+1], b[off+2], b[off+3] = byte(v>>24), byte(v>>16), byte(v>>8), byte(v)
}

// AddPage appends a zeroed page and returns its number.
func (f *VerifFile) AddPage() int {
	n := len(f.Pager.IDs) + 1
	f.Pager.IDs = append(f.Pager.IDs, n)
	f.Pager.Bufs = append(f.Pager.Bufs, make([]byte, f.PageSize))
	return n
}

func (f *VerifFile) Page(no int) []byte { return f.Pager.Bufs[no-1] }

// writeBtree lays out a b-tree page: header, cell pointer array, cells packed
// at the end of the page in the given order.
func (f *VerifFile) writeBtree(no int, typ byte, rightmost int, cells [][]byte) {
	b := f.Page(no)
	h := 0
	if no == 1 {
		h = 100
	}
	for i := h; i < len(b); i++ {
		b[i] = 0
	}
	b[h] = typ
	b[h+3], b[h+4] = byte(len(cells)>>8), byte(len(cells))
	ptr := h + 8
	if typ == 0x05 || typ == 0x02 {
		put32(b, h+8, uint32(rightmost))
		ptr = h + 12
	}
	end := len(b)
	for i, c := range cells {
		end -= len(c)
		if end < ptr+2*len(cells) {
			panic("VerifFile: cells do not fit the page")
		}
		copy(b[end:], c)
		b[ptr+2*i], b[ptr+2*i+1] = byte(end>>8), byte(end)
	}
	b[h+5], b[h+6] = byte(end>>8), byte(end)
}

// TableLeaf: cells (rowid, payload); rowid varints use length class rn (1..9).
func (f *VerifFile) TableLeaf(no int, rowids []int64, rn int, payloads [][]byte) {
	var cells [][]byte
	for i, p := range payloads {
		c := VerifVarint(nil, int64(len(p)), VerifVarintLen(int64(len(p))))
		c = VerifVarint(c, rowids[i], rn)
		cells = append(cells, append(c, p...))
	}
	f.writeBtree(no, 0x0d, 0, cells)
}

// TableLeafSpill: one cell whose payload spills: local part + first overflow page.
func (f *VerifFile) TableLeafSpill(no int, rowid int64, rn int, total int, local []byte, overflow int) {
	c := VerifVarint(nil, int64(total), VerifVarintLen(int64(total)))
	c = VerifVarint(c, rowid, rn)
	c = append(c, local...)
	c = append(c, byte(overflow>>24), byte(overflow>>16), byte(overflow>>8), byte(overflow))
	f.writeBtree(no, 0x0d, 0, [][]byte{c})
}

func (f *VerifFile) Overflow(no int, next int, content []byte) {
	b := f.Page(no)
	put32(b, 0, uint32(next))
	copy(b[4:], content)
}

func (f *VerifFile) TableInterior(no int, children []int, keys []int64, kn int) {
	var cells [][]byte
	for i, k := range keys {
		c := []byte{byte(children[i] >> 24), byte(children[i] >> 16), byte(children[i] >> 8), byte(children[i])}
		cells = append(cells, VerifVarint(c, k, kn))
	}
	f.writeBtree(no, 0x05, children[len(children)-1], cells)
}

func (f *VerifFile) IndexLeaf(no int, payloads [][]byte) {
	var cells [][]byte
	for _, p := range payloads {
		c := VerifVarint(nil, int64(len(p)), VerifVarintLen(int64(len(p))))
		cells = append(cells, append(c, p...))
	}
	f.writeBtree(no, 0x0a, 0, cells)
}

func (f *VerifFile) IndexInterior(no int, children []int, payloads [][]byte) {
	var cells [][]byte
	for i, p := range payloads {
		c := []byte{byte(children[i] >> 24), byte(children[i] >> 16), byte(children[i] >> 8), byte(children[i])}
		c = VerifVarint(c, int64(len(p)), VerifVarintLen(int64(len(p))))
		cells = append(cells, append(c, p...))
	}
	f.writeBtree(no, 0x02, children[len(children)-1], cells)
}

type VerifMasterRow struct {
	Typ, Name, Tbl string
	Root           int
	SQL            string
}

// Master writes sqlite_master (page 1) as a single leaf.
func (f *VerifFile) Master(rows []VerifMasterRow) {
	var ids []int64
	var pls [][]byte
	for i, r := range rows {
		ids = append(ids, int64(i+1))
		if r.SQL == "" {
			pls = append(pls, VerifRecord(r.Typ, r.Name, r.Tbl, int64(r.Root), nil))
		} else {
			pls = append(pls, VerifRecord(r.Typ, r.Name, r.Tbl, int64(r.Root), r.SQL))
		}
	}
	f.TableLeaf(1, ids, 1, pls)
}

// Open opens a handle on the file (no journal).
func (f *VerifFile) Open() (*Database, error) { return newDatabase(f.Pager, "") }

// OpenSecond opens another, independent handle on the same file (own pager,
// own caches), as a second goroutine or connection would.
func (f *VerifFile) OpenSecond() (*Database, *VerifPager, error) {
	p := &VerifPager{IDs: f.Pager.IDs, Bufs: f.Pager.Bufs, Copy: true}
	d, err := newDatabase(p, "")
	return d, p, err
}
