//go:build verif

package db

// C13 / C01 / C17 at the traversal level: full scans, from-key, range and
// equality scans, early stop — over b-trees of symbolic content.

func vhIndexSetup() (*vhIndexEnv, *Index) {
	depth, fan := vhTreeShape()
	e := &vhIndexEnv{vhTreeEnv: vhNewEnv()}
	e.desc = verifBool()
	if verifTier() > 0 {
		e.nulls = verifChoice(2)
	}
	root := e.index(depth, fan)
	return e, &Index{db: e.db, root: root}
}

// a search key of 0..3 columns; column 0 is NULL or any int64, column 1 any
// rowid, column 2 (one more than any stored record has) NULL or any int64 with
// either direction: a stored record that is a proper prefix of the key sorts
// before it.
func vhKey(e *vhIndexEnv) (Key, vhEnt, int) { return vhKeyN(e, 3) }

func vhKeyN(e *vhIndexEnv, maxCols int) (Key, vhEnt, int) {
	nk := verifChoice(maxCols + 1)
	var kv vhEnt
	key := Key{}
	if nk >= 1 {
		if verifBool() {
			kv.null = true
			key = append(key, KeyCol{V: nil, Desc: e.desc})
		} else {
			kv.k = verifInt64()
			key = append(key, KeyCol{V: kv.k, Desc: e.desc})
		}
	}
	if nk >= 2 {
		kv.rowid = verifInt64()
		key = append(key, KeyCol{V: kv.rowid})
	}
	if nk == 3 {
		if verifBool() {
			key = append(key, KeyCol{V: nil, Desc: verifBool()})
		} else {
			key = append(key, KeyCol{V: verifInt64(), Desc: verifBool()})
		}
	}
	return key, kv, nk
}

// vhEntGE: entry >= key on the key's nk columns, in index order
func vhEntGE(en, kv vhEnt, nk int, desc bool) bool {
	if nk == 0 {
		return true
	}
	c := 0
	switch {
	case en.null && kv.null:
	case en.null:
		c = -1
	case kv.null:
		c = 1
	default:
		c = verifIte(en.k < kv.k, -1, verifIte(en.k > kv.k, 1, 0))
	}
	if desc {
		c = -c
	}
	if nk == 1 {
		return c >= 0
	}
	if nk == 3 {
		// equal on both stored columns: the record is a proper prefix of the key, hence smaller
		return verifOr(c > 0, verifAnd(c == 0, en.rowid > kv.rowid))
	}
	return verifOr(c > 0, verifAnd(c == 0, en.rowid >= kv.rowid))
}

func vhEntEQ(en, kv vhEnt, nk int) bool {
	if nk == 0 {
		return true
	}
	if nk == 3 {
		return false // no stored record has a third column
	}
	same := verifOr(verifAnd(en.null, kv.null), verifAnd(verifAnd(!en.null, !kv.null), en.k == kv.k))
	if nk == 1 {
		return same
	}
	return verifAnd(same, en.rowid == kv.rowid)
}

//verif:shards 8
//verif:bounds index b-trees as C04's shapes; one int64 key column (ASC or DESC; thorough: leading NULL keys) + rowid; entries any values consistent with index order
func VH_C13_scan_full() {
	e, in := vhIndexSetup()
	var got []Record
	err := in.Scan(func(r Record) bool { got = append(got, r); return false })
	verifAssert(err == nil, "full scan succeeds")
	verifAssert(len(got) == len(e.ents), "full scan yields every entry once")
	if len(got) == len(e.ents) {
		for i := range got {
			verifAssert(vhSameEnt(got[i], e.ents[i]), "full scan order and content")
		}
	}
	verifReach("end")
}

//verif:shards 8
//verif:bounds as VH_C13_scan_full; key of 0..3 columns (NULL or any int64, any rowid, a third column no record has)
func VH_C13_scan_min() {
	e, in := vhIndexSetup()
	if len(e.ents) > 5 {
		// keyed scans: trees of <= 5 entries in both tiers (the thorough tier adds
		// leading NULL keys); larger trees cost hours of solver time
		verifReach("end")
		return
	}
	key, kv, nk := vhKey(e)
	var got []Record
	err := in.ScanMin(key, func(r Record) bool { got = append(got, r); return false })
	verifAssert(err == nil, "from-key scan succeeds")
	first := len(e.ents)
	for i := len(e.ents) - 1; i >= 0; i-- {
		if vhEntGE(e.ents[i], kv, nk, e.desc) {
			first = i
		}
	}
	verifAssert(len(got) == len(e.ents)-first, "from-key scan yields exactly the suffix from the first entry >= key")
	if len(got) == len(e.ents)-first {
		for i := range got {
			verifAssert(vhSameEnt(got[i], e.ents[first+i]), "from-key scan content")
		}
	}
	verifReach("end")
}

//verif:shards 8
//verif:bounds as VH_C13_scan_min
func VH_C13_scan_eq() {
	e, in := vhIndexSetup()
	if len(e.ents) > 5 {
		// keyed scans: trees of <= 5 entries in both tiers (the thorough tier adds
		// leading NULL keys); larger trees cost hours of solver time
		verifReach("end")
		return
	}
	key, kv, nk := vhKey(e)
	var got []Record
	err := in.ScanEq(key, func(r Record) bool { got = append(got, r); return false })
	verifAssert(err == nil, "equality scan succeeds")
	var want []vhEnt
	for _, en := range e.ents {
		if vhEntEQ(en, kv, nk) {
			want = append(want, en)
		}
	}
	verifAssert(len(got) == len(want), "equality scan yields exactly the equal entries")
	if len(got) == len(want) {
		for i := range got {
			verifAssert(vhSameEnt(got[i], want[i]), "equality scan content")
		}
	}
	verifReach("end")
}

// Stored NULL keys under keyed scans, in both tiers: NULL equals NULL in the
// index order (it is the smallest value), so an equality scan with a NULL key
// yields exactly the NULL entries and a from-key scan from NULL yields all.
//verif:prop C13,C03
//verif:bounds ascending index of one leaf of 3 entries or interior entry + two leaves of 1 entry (3 entries), the first 1..3 of them with a NULL key column (others any int64, rowids any int64 consistent with index order); keys of 0..3 columns as VH_C13_scan_min (column 0 NULL or any int64); ScanEq and ScanMin
func VH_C13_null_entries() {
	e := &vhIndexEnv{vhTreeEnv: vhNewEnv()}
	e.nulls = 1 + verifChoice(3)
	var root int
	if verifBool() {
		root = e.index(1, 3)
	} else {
		root = e.index(2, 1)
	}
	in := &Index{db: e.db, root: root}
	key, kv, nk := vhKey(e)
	var got []Record
	cb := func(r Record) bool { got = append(got, r); return false }
	var want []vhEnt
	var err error
	if verifBool() {
		err = in.ScanEq(key, cb)
		for _, en := range e.ents {
			if vhEntEQ(en, kv, nk) {
				want = append(want, en)
			}
		}
		verifReach("eq")
	} else {
		err = in.ScanMin(key, cb)
		for _, en := range e.ents {
			if vhEntGE(en, kv, nk, false) {
				want = append(want, en)
			}
		}
		verifReach("min")
	}
	verifAssert(err == nil, "keyed scan over NULL entries succeeds")
	verifAssert(len(got) == len(want), "keyed scan over NULL entries yields exactly the selected entries")
	if len(got) == len(want) {
		for i := range got {
			verifAssert(vhSameEnt(got[i], want[i]), "keyed scan over NULL entries: content")
		}
	}
	verifReach("end")
}

//verif:shards 8
//verif:bounds as VH_C13_scan_min with two keys (lower, upper); trees of <= 5 entries
func VH_C13_scan_range() {
	e, in := vhIndexSetup()
	if len(e.ents) > 5 {
		// two free keys: trees of <= 5 entries
		verifReach("end")
		return
	}
	// two free keys: the over-long third column only in the thorough tier
	from, fv, fn := vhKeyN(e, 2)
	to, tv, tn := vhKeyN(e, 2+verifTier())
	var got []Record
	err := in.ScanRange(from, to, func(r Record) bool { got = append(got, r); return false })
	verifAssert(err == nil, "range scan succeeds")
	var want []vhEnt
	for _, en := range e.ents {
		if verifAnd(vhEntGE(en, fv, fn, e.desc), !vhEntGE(en, tv, tn, e.desc)) {
			want = append(want, en)
		}
	}
	verifAssert(len(got) == len(want), "range scan yields exactly lower <= entry < upper")
	if len(got) == len(want) {
		for i := range got {
			verifAssert(vhSameEnt(got[i], want[i]), "range scan content")
		}
	}
	verifReach("end")
}

// ---- C12 at the low level: index entries whose payload spills to overflow
// pages (every comparison of the binary search then costs a page read), one
// page read fails (one-shot, ordinal k symbolic).

// vhSpilledLeaf: an index leaf of n entries, each stored as 10 local bytes +
// one overflow page holding the rest of the 19-byte record.
func vhSpilledCell(e *vhIndexEnv) cellPayload {
	en := e.newEnt()
	full := vhRecEnt(en).Payload
	pg := make([]byte, 512)
	copy(pg[4:], full[10:])
	id := 100 + len(e.ents)
	e.pager.IDs = append(e.pager.IDs, id)
	e.pager.Bufs = append(e.pager.Bufs, pg)
	return cellPayload{Length: int64(len(full)), Payload: full[:10], Overflow: id}
}

func vhSpilledLeaf(e *vhIndexEnv, n int) int {
	l := &indexLeaf{}
	for i := 0; i < n; i++ {
		l.cells = append(l.cells, vhSpilledCell(e))
	}
	return e.newPage(l)
}

// vhSpilledTree: interior root with one spilled entry between a left leaf of
// nl spilled entries and a right leaf of one — a read failing inside the LEFT
// child's search comes back through the interior page's loop.
func vhSpilledTree(e *vhIndexEnv, nl int) int {
	left := vhSpilledLeaf(e, nl)
	sep := vhSpilledCell(e)
	right := vhSpilledLeaf(e, 1)
	return e.newPage(&indexInterior{cells: []indexInteriorCell{{left: left, payload: sep}}, rightmost: right})
}

//verif:prop C12,C20,C02
//verif:bounds 3 (thorough: 4) index entries whose records spill to one overflow page each, as one leaf or as interior entry + left leaf + right leaf; operations ScanEq / ScanMin / ScanRange / Scan with symbolic int64 keys; the failing page read k = any ordinal (one-shot I/O error)
func VH_C12_index_overflow() {
	e := &vhIndexEnv{vhTreeEnv: vhNewEnv()}
	e.desc = verifBool()
	n := 3 + verifTier()
	var root int
	if verifChoice(2) == 0 {
		root = vhSpilledLeaf(e, n)
	} else {
		root = vhSpilledTree(e, n-2)
	}
	in := &Index{db: e.db, root: root}
	kv := vhEnt{k: verifInt64()}
	key := Key{{V: kv.k, Desc: e.desc}}
	k := verifInt()
	verifAssume(k >= 1)
	e.pager.FailAt = k
	var got []Record
	cb := func(r Record) bool { got = append(got, r); return false }
	var err error
	var want []vhEnt
	switch verifChoice(4) {
	case 0:
		err = in.ScanEq(key, cb)
		for _, en := range e.ents {
			if vhEntEQ(en, kv, 1) {
				want = append(want, en)
			}
		}
	case 1:
		err = in.ScanMin(key, cb)
		for _, en := range e.ents {
			if vhEntGE(en, kv, 1, e.desc) {
				want = append(want, en)
			}
		}
	case 2:
		hi := vhEnt{k: verifInt64()}
		err = in.ScanRange(key, Key{{V: hi.k, Desc: e.desc}}, cb)
		for _, en := range e.ents {
			if verifAnd(vhEntGE(en, kv, 1, e.desc), !vhEntGE(en, hi, 1, e.desc)) {
				want = append(want, en)
			}
		}
	case 3:
		err = in.Scan(cb)
		want = e.ents
	}
	if e.pager.Reads >= k {
		verifAssert(err != nil, "a failed page read is reported")
		verifReach("faulted")
	} else {
		verifAssert(err == nil, "no fault, no error")
		verifAssert(len(got) == len(want), "complete result without fault")
	}
	verifAssert(len(got) <= len(want), "never more rows than the fault-free result")
	if len(got) <= len(want) {
		for i := range got {
			verifAssert(vhSameEnt(got[i], want[i]), "delivered rows are a correct prefix")
		}
	}
	verifReach("end")
}

// Text keys under a collation: an index leaf of 3 one-byte text entries sorted
// by the reference NOCASE / RTRIM / BINARY order (ties by rowid); from-key and
// equality scans with a one-byte text key carrying the same collation.
//verif:prop C13,C03,C20
//verif:bounds index leaf of 3 entries (text of exactly 1 byte, any byte < 0x80; rowids any int64), collation binary / nocase / rtrim, ASC; key = any 1-byte text; ScanMin and ScanEq
func VH_C13_text_collation() {
	coll := verifChoice(3)
	e := vhNewEnv()
	type ent struct {
		s     string
		rowid int64
	}
	var ents []ent
	l := &indexLeaf{}
	for i := 0; i < 3; i++ {
		s := verifString(1)
		verifAssume(s[0] < 0x80)
		en := ent{s, verifInt64()}
		if i > 0 {
			c := rmCompare(ents[i-1].s, en.s, coll)
			verifAssume(verifOr(c < 0, verifAnd(c == 0, ents[i-1].rowid < en.rowid)))
		}
		ents = append(ents, en)
		b := VerifRecord(en.s, en.rowid)
		l.cells = append(l.cells, cellPayload{Length: int64(len(b)), Payload: b})
	}
	in := &Index{db: e.db, root: e.newPage(l)}
	ks := verifString(1)
	verifAssume(ks[0] < 0x80)
	key := Key{{V: ks, Collate: vhCollNames[coll]}}
	if coll == 0 && verifChoice(2) == 1 {
		key[0].Collate = "" // default collation
	}
	var got []Record
	cb := func(r Record) bool { got = append(got, r); return false }
	eq := verifChoice(2) == 1
	var err error
	var want []ent
	if eq {
		err = in.ScanEq(key, cb)
		for _, en := range ents {
			if rmCompare(ks, en.s, coll) == 0 {
				want = append(want, en)
			}
		}
	} else {
		err = in.ScanMin(key, cb)
		for _, en := range ents {
			if rmCompare(ks, en.s, coll) <= 0 {
				want = append(want, en)
			}
		}
	}
	verifAssert(err == nil, "scan succeeds")
	verifAssert(len(got) == len(want), "exactly the entries selected by the reference order under the collation")
	if len(got) == len(want) {
		for i := range got {
			s, ok1 := got[i][0].(string)
			r, ok2 := got[i][1].(int64)
			verifAssert(ok1 && ok2 && s == want[i].s && r == want[i].rowid, "entries in index order")
		}
	}
	verifReach("end")
}

// C12, table side: rows whose records spill to an overflow page; the k-th page
// read fails while scanning or looking a row up by rowid.
//verif:prop C12,C20
//verif:bounds table leaf of 2 rows (rowids, values symbolic) each spilling to one overflow page; operations Table.Scan and Table.Rowid(present or absent rowid); failing page read k = any ordinal (one-shot)
func VH_C12_table_overflow() {
	e := vhNewEnv()
	l := &tableLeaf{}
	var rows []vhRow
	for i := 0; i < 2; i++ {
		r := vhRow{rowid: verifInt64(), val: verifInt64()}
		if i > 0 {
			verifAssume(rows[i-1].rowid < r.rowid)
		}
		rows = append(rows, r)
		full := vhRecInt(r.val).Payload
		pg := make([]byte, 512)
		copy(pg[4:], full[4:])
		id := 200 + i
		e.pager.IDs = append(e.pager.IDs, id)
		e.pager.Bufs = append(e.pager.Bufs, pg)
		l.cells = append(l.cells, tableLeafCell{left: r.rowid, payload: cellPayload{Length: int64(len(full)), Payload: full[:4], Overflow: id}})
	}
	t := &Table{db: e.db, root: e.newPage(l)}
	k := verifInt()
	verifAssume(k >= 1)
	e.pager.FailAt = k
	if verifChoice(2) == 0 {
		var ids, vals []int64
		err := t.Scan(func(id int64, r Record) bool {
			v, _ := r[0].(int64)
			ids, vals = append(ids, id), append(vals, v)
			return false
		})
		if e.pager.Reads >= k {
			verifAssert(err != nil, "a failed page read is reported")
			verifReach("faulted")
		} else {
			verifAssert(err == nil && len(ids) == 2, "no fault: complete scan")
		}
		verifAssert(len(ids) <= 2, "never more rows than stored")
		for i := range ids {
			verifAssert(ids[i] == rows[i].rowid && vals[i] == rows[i].val, "delivered rows are a correct prefix")
		}
	} else {
		want := verifInt64()
		rec, err := t.Rowid(want)
		present := -1
		for i, r := range rows {
			if r.rowid == want {
				present = i
			}
		}
		if e.pager.Reads >= k {
			verifAssert(err != nil, "a failed page read is reported, not turned into 'no such row'")
			verifReach("faulted")
		} else if present >= 0 {
			v, ok := rec[0].(int64)
			verifAssert(err == nil && rec != nil && ok && v == rows[present].val, "present row returned")
		} else {
			verifAssert(err == nil && rec == nil, "absent row: nil, no error")
		}
	}
	verifReach("end")
}
