//go:build verif

package db

// C13 / C01 / C17 at the traversal level: full scans, from-key, range and
// equality scans, early stop — over b-trees of symbolic content.

func vhIndexSetup() (*vhIndexEnv, *Index) {
	depth, fan := vhTreeShape()
	e := &vhIndexEnv{vhTreeEnv: vhNewEnv()}
	e.desc = verifBool()
	if verifTier() > 0 {
		e.nulls = verifChoice(2)
	}
	root := e.index(depth, fan)
	return e, &Index{db: e.db, root: root}
}

// a search key: 0, 1 or 2 columns; column 0 is NULL or any int64
func vhKey(e *vhIndexEnv) (Key, vhEnt, int) {
	nk := verifChoice(3)
	var kv vhEnt
	key := Key{}
	if nk >= 1 {
		if verifBool() {
			kv.null = true
			key = append(key, KeyCol{V: nil, Desc: e.desc})
		} else {
			kv.k = verifInt64()
			key = append(key, KeyCol{V: kv.k, Desc: e.desc})
		}
	}
	if nk == 2 {
		kv.rowid = verifInt64()
		key = append(key, KeyCol{V: kv.rowid})
	}
	return key, kv, nk
}

// vhEntGE: entry >= key on the key's nk columns, in index order
func vhEntGE(en, kv vhEnt, nk int, desc bool) bool {
	if nk == 0 {
		return true
	}
	c := 0
	switch {
	case en.null && kv.null:
	case en.null:
		c = -1
	case kv.null:
		c = 1
	default:
		c = verifIte(en.k < kv.k, -1, verifIte(en.k > kv.k, 1, 0))
	}
	if desc {
		c = -c
	}
	if nk == 1 {
		return c >= 0
	}
	return verifOr(c > 0, verifAnd(c == 0, en.rowid >= kv.rowid))
}

func vhEntEQ(en, kv vhEnt, nk int) bool {
	if nk == 0 {
		return true
	}
	same := verifOr(verifAnd(en.null, kv.null), verifAnd(verifAnd(!en.null, !kv.null), en.k == kv.k))
	if nk == 1 {
		return same
	}
	return verifAnd(same, en.rowid == kv.rowid)
}

//verif:shards 8
//verif:bounds index b-trees as C04's shapes; one int64 key column (ASC or DESC; thorough: leading NULL keys) + rowid; entries any values consistent with index order
func VH_C13_scan_full() {
	e, in := vhIndexSetup()
	var got []Record
	err := in.Scan(func(r Record) bool { got = append(got, r); return false })
	verifAssert(err == nil, "full scan succeeds")
	verifAssert(len(got) == len(e.ents), "full scan yields every entry once")
	if len(got) == len(e.ents) {
		for i := range got {
			verifAssert(vhSameEnt(got[i], e.ents[i]), "full scan order and content")
		}
	}
	verifReach("end")
}

//verif:shards 8
//verif:bounds as VH_C13_scan_full; key of 0..2 columns (NULL or any int64, any rowid)
func VH_C13_scan_min() {
	e, in := vhIndexSetup()
	if len(e.ents) > 5 && verifTier() == 0 {
		verifReach("end")
		return
	}
	key, kv, nk := vhKey(e)
	var got []Record
	err := in.ScanMin(key, func(r Record) bool { got = append(got, r); return false })
	verifAssert(err == nil, "from-key scan succeeds")
	first := len(e.ents)
	for i := len(e.ents) - 1; i >= 0; i-- {
		if vhEntGE(e.ents[i], kv, nk, e.desc) {
			first = i
		}
	}
	verifAssert(len(got) == len(e.ents)-first, "from-key scan yields exactly the suffix from the first entry >= key")
	if len(got) == len(e.ents)-first {
		for i := range got {
			verifAssert(vhSameEnt(got[i], e.ents[first+i]), "from-key scan content")
		}
	}
	verifReach("end")
}

//verif:shards 8
//verif:bounds as VH_C13_scan_min
func VH_C13_scan_eq() {
	e, in := vhIndexSetup()
	if len(e.ents) > 5 && verifTier() == 0 {
		verifReach("end")
		return
	}
	key, kv, nk := vhKey(e)
	var got []Record
	err := in.ScanEq(key, func(r Record) bool { got = append(got, r); return false })
	verifAssert(err == nil, "equality scan succeeds")
	var want []vhEnt
	for _, en := range e.ents {
		if vhEntEQ(en, kv, nk) {
			want = append(want, en)
		}
	}
	verifAssert(len(got) == len(want), "equality scan yields exactly the equal entries")
	if len(got) == len(want) {
		for i := range got {
			verifAssert(vhSameEnt(got[i], want[i]), "equality scan content")
		}
	}
	verifReach("end")
}

//verif:shards 8
//verif:bounds as VH_C13_scan_min with two keys (lower, upper); quick tier: trees of <= 5 entries
func VH_C13_scan_range() {
	e, in := vhIndexSetup()
	if len(e.ents) > 5 && verifTier() == 0 {
		// two free keys over the 8-entry shape is a thorough-tier bound
		verifReach("end")
		return
	}
	from, fv, fn := vhKey(e)
	to, tv, tn := vhKey(e)
	var got []Record
	err := in.ScanRange(from, to, func(r Record) bool { got = append(got, r); return false })
	verifAssert(err == nil, "range scan succeeds")
	var want []vhEnt
	for _, en := range e.ents {
		if verifAnd(vhEntGE(en, fv, fn, e.desc), !vhEntGE(en, tv, tn, e.desc)) {
			want = append(want, en)
		}
	}
	verifAssert(len(got) == len(want), "range scan yields exactly lower <= entry < upper")
	if len(got) == len(want) {
		for i := range got {
			verifAssert(vhSameEnt(got[i], want[i]), "range scan content")
		}
	}
	verifReach("end")
}
