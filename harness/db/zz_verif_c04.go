//go:build verif

package db

// C04: rowid lookup over table b-trees of symbolic content.

//verif:shards 8
//verif:bounds table b-trees of depth 1..2 with 1..2 cells per page (thorough: also depth 3 with 1..2 cells and depth 1..2 with 3 cells); rowids, separators, looked-up rowid: any int64 consistent with the b-tree key invariant
func VH_C04_rowid() {
	depth, fan := vhTreeShape()
	e := vhNewEnv()
	root, _, _ := e.table(depth, fan)
	e.constrainSeparators(root)
	t := &Table{db: e.db, root: root}
	want := verifInt64()
	rec, err := t.Rowid(want)
	verifAssert(err == nil, "lookup does not fail")
	found := -1
	for i, r := range e.rows {
		if r.rowid == want {
			found = i
		}
	}
	if found >= 0 {
		verifAssert(rec != nil, "present rowid is found")
		if rec != nil {
			v, ok := rec[0].(int64)
			verifAssert(len(rec) == 1 && ok && v == e.rows[found].val, "the row stored under that rowid is returned")
		}
		verifReach("present")
	} else {
		verifAssert(rec == nil, "absent rowid yields no row")
		verifReach("absent")
	}
	verifReach("end")
}

// Empty table: root is an empty leaf.
func VH_C04_empty() {
	e := vhNewEnv()
	root := e.newPage(&tableLeaf{})
	t := &Table{db: e.db, root: root}
	rec, err := t.Rowid(verifInt64())
	verifAssert(err == nil && rec == nil, "empty table has no rows")
	verifReach("end")
}
