//go:build verif

package db

// Native side of the lock stubs: foreign SQLite connections are played by a
// python3 helper process holding fcntl locks on the lock bytes; the locks this
// process holds are probed from a second helper with F_GETLK (a process cannot
// see its own locks that way).

import (
	"bufio"
	"fmt"
	"os/exec"
	"strings"
)

var verifLockHelper *exec.Cmd
var verifLockIn interface{ Write([]byte) (int, error) }
var verifLockOut *bufio.Reader

const verifLockScript = `
import fcntl, sys, struct
f = open(sys.argv[1], 'r+b')
P = 0x40000000
def lk(typ, start, length):
    fcntl.fcntl(f.fileno(), fcntl.F_SETLK, struct.pack('hhqqi4x', typ, 0, start, length, 0))
flags = sys.argv[2]
if 'p' in flags: lk(fcntl.F_WRLCK, P, 1)
if 'r' in flags: lk(fcntl.F_WRLCK, P+1, 1)
if 's' in flags: lk(fcntl.F_RDLCK, P+2, 510)
if 'x' in flags: lk(fcntl.F_WRLCK, P+2, 510)
print('ok', flush=True)
# probes are answered from here: F_GETLK reports locks of OTHER processes only,
# i.e. exactly the ones the process under test holds
for line in sys.stdin:
    start, length = [int(x) for x in line.split()]
    r = fcntl.fcntl(f.fileno(), fcntl.F_GETLK, struct.pack('hhqqi4x', fcntl.F_WRLCK, 0, start, length, 0))
    typ = struct.unpack('hhqqi4x', r)[0]
    print({fcntl.F_UNLCK: 0, fcntl.F_RDLCK: 1, fcntl.F_WRLCK: 2}[typ], flush=True)
`

const verifProbeScript = `
import fcntl, sys, struct
f = open(sys.argv[1], 'r+b')
start, length = int(sys.argv[2]), int(sys.argv[3])
r = fcntl.fcntl(f.fileno(), fcntl.F_GETLK, struct.pack('hhqqi4x', fcntl.F_WRLCK, 0, start, length, 0))
typ = struct.unpack('hhqqi4x', r)[0]
print({fcntl.F_UNLCK: 0, fcntl.F_RDLCK: 1, fcntl.F_WRLCK: 2}[typ])
`

func VerifSetForeignLocks(name string, pending, reserved, shared, exclusive bool) {
	if verifLockHelper != nil {
		verifLockHelper.Process.Kill()
		verifLockHelper.Wait()
		verifLockHelper = nil
	}
	flags := ""
	if pending {
		flags += "p"
	}
	if reserved {
		flags += "r"
	}
	if shared {
		flags += "s"
	}
	if exclusive {
		flags += "x"
	}
	if flags == "" {
		return
	}
	cmd := exec.Command("python3", "-c", verifLockScript, name, flags)
	in, _ := cmd.StdinPipe()
	out, _ := cmd.StdoutPipe()
	if err := cmd.Start(); err != nil {
		panic(VerifStop{"cannot start lock helper"})
	}
	rd := bufio.NewReader(out)
	line, _ := rd.ReadString('\n')
	if strings.TrimSpace(line) != "ok" {
		panic(VerifStop{"lock helper failed"})
	}
	verifLockHelper, verifLockIn, verifLockOut = cmd, in, rd
}

// VerifOwnLock: lock type this process holds overlapping [start, start+length):
// 0 none, 1 read, 2 write.
func VerifOwnLock(name string, start, length int64) int {
	if verifLockHelper != nil {
		fmt.Fprintf(verifLockIn, "%d %d\n", start, length)
		line, _ := verifLockOut.ReadString('\n')
		var n int
		fmt.Sscan(strings.TrimSpace(line), &n)
		return n
	}
	out, err := exec.Command("python3", "-c", verifProbeScript, name, fmt.Sprint(start), fmt.Sprint(length)).Output()
	if err != nil {
		panic(VerifStop{"lock probe failed"})
	}
	var n int
	fmt.Sscan(strings.TrimSpace(string(out)), &n)
	return n
}

func verifSetForeignLocks(name string, pending, reserved, shared, exclusive bool) {
	VerifSetForeignLocks(name, pending, reserved, shared, exclusive)
}
func verifOwnLock(name string, start, length int64) int { return VerifOwnLock(name, start, length) }
