//go:build verif

package db

// Trees of page objects with symbolic content, installed in the handle's page
// cache (openPage then serves them without going through the byte parsers,
// which C14/C05 cover on their own). Page numbers are concrete, everything a
// b-tree search depends on — rowids, separators, keys — is a solver variable.

type vhRow struct {
	rowid int64
	val   int64
}

func vhPutInt64(b []byte, v int64) []byte {
	u := uint64(v)
	return append(b, byte(u>>56), byte(u>>48), byte(u>>40), byte(u>>32), byte(u>>24), byte(u>>16), byte(u>>8), byte(u))
}

// one-column record holding an 8-byte integer
func vhRecInt(v int64) cellPayload {
	b := vhPutInt64([]byte{2, 6}, v)
	return cellPayload{Length: int64(len(b)), Payload: b}
}

type vhTreeEnv struct {
	db    *Database
	pager *VerifPager
	next  int
	rows  []vhRow
}

func vhNewEnv() *vhTreeEnv {
	p := &VerifPager{Locked: true}
	db := &Database{l: p, header: &header{PageSize: 512}, btreeCache: newBtreeCache(CachePages)}
	return &vhTreeEnv{db: db, pager: p, next: 2}
}

func (e *vhTreeEnv) newPage(obj interface{}) int {
	n := e.next
	e.next++
	e.db.btreeCache.set(n, obj)
	return n
}

// table builds a table b-tree of the given depth with exactly `fan` cells per
// page (fan+1 children per interior page). Returns the root page and the bounds
// (min,max rowid) of the subtree. Rows are appended to e.rows in key order.
func (e *vhTreeEnv) table(depth, fan int) (page int, lo, hi int64) {
	if depth == 1 {
		l := &tableLeaf{}
		for i := 0; i < fan; i++ {
			r := vhRow{rowid: verifInt64(), val: verifInt64()}
			if n := len(e.rows); n > 0 {
				verifAssume(e.rows[n-1].rowid < r.rowid)
			}
			e.rows = append(e.rows, r)
			l.cells = append(l.cells, tableLeafCell{left: r.rowid, payload: vhRecInt(r.val)})
		}
		return e.newPage(l), l.cells[0].left, l.cells[fan-1].left
	}
	in := &tableInterior{}
	for i := 0; i <= fan; i++ {
		cp, clo, chi := e.table(depth-1, fan)
		if i == 0 {
			lo = clo
		}
		hi = chi
		if i < fan {
			// separator: >= every key of the left child, < every key to its right
			sep := verifInt64()
			verifAssume(sep >= chi)
			in.cells = append(in.cells, tableInteriorCell{left: cp, key: sep})
		} else {
			in.rightmost = cp
		}
	}
	// separators bound the following subtrees from below
	return e.newPage(in), lo, hi
}

// finishTable adds the cross-subtree ordering the separators need: every
// separator is smaller than the first key to its right. (Rows are globally
// increasing already; separators only need to sit in the gaps.)
func (e *vhTreeEnv) constrainSeparators(page int) (lo, hi int64) {
	switch p := e.db.btreeCache.get(page).(type) {
	case *tableLeaf:
		return p.cells[0].left, p.cells[len(p.cells)-1].left
	case *tableInterior:
		for i := range p.cells {
			clo, chi := e.constrainSeparators(p.cells[i].left)
			if i == 0 {
				lo = clo
			}
			verifAssume(p.cells[i].key >= chi)
			if i > 0 {
				verifAssume(p.cells[i-1].key < clo)
			}
			_ = chi
		}
		rlo, rhi := e.constrainSeparators(p.rightmost)
		verifAssume(p.cells[len(p.cells)-1].key < rlo)
		return lo, rhi
	}
	return 0, 0
}

var vhShapes = [8][2]int{{1, 1}, {1, 2}, {2, 1}, {2, 2}, {1, 3}, {2, 3}, {3, 1}, {3, 2}}

// vhTreeShape: (depth, cells per page); shapes 0..4 and 6 in the quick tier
// (a single leaf of three cells is the smallest page on which "position = key
// minus first key" shortcuts can go wrong), all 8 in the thorough tier.
// Harnesses using it carry //verif:shards 8.
func vhTreeShape() (depth, fan int) {
	k := verifShard(8)
	if k >= 5 && k != 6 && verifTier() == 0 {
		verifAssume(false)
	}
	return vhShapes[k][0], vhShapes[k][1]
}

// ---- index trees ----

type vhEnt struct {
	null  bool  // key column is NULL
	k     int64 // key column
	rowid int64
}

func vhRecEnt(en vhEnt) cellPayload {
	var b []byte
	if en.null {
		b = vhPutInt64([]byte{3, 0, 6}, en.rowid)
	} else {
		b = vhPutInt64(vhPutInt64([]byte{3, 6, 6}, en.k), en.rowid)
	}
	return cellPayload{Length: int64(len(b)), Payload: b}
}

// vhEntLess: e1 sorts strictly before e2 in an index whose key column is
// ASC/DESC (NULLs first in ASC order, last in DESC), ties broken by rowid.
func vhEntLess(a, b vhEnt, desc bool) bool {
	c := 0 // compare key columns: -1,0,1 in ASC order
	switch {
	case a.null && b.null:
	case a.null:
		c = -1
	case b.null:
		c = 1
	default:
		c = verifIte(a.k < b.k, -1, verifIte(a.k > b.k, 1, 0))
	}
	if desc {
		c = -c
	}
	return verifOr(c < 0, verifAnd(c == 0, a.rowid < b.rowid))
}

type vhIndexEnv struct {
	*vhTreeEnv
	ents  []vhEnt
	desc  bool
	nulls int // the first `nulls` entries (ASC) carry a NULL key
}

func (e *vhIndexEnv) newEnt() vhEnt {
	en := vhEnt{k: verifInt64(), rowid: verifInt64()}
	if !e.desc && len(e.ents) < e.nulls {
		en.null = true
	}
	if n := len(e.ents); n > 0 {
		verifAssume(vhEntLess(e.ents[n-1], en, e.desc))
	}
	e.ents = append(e.ents, en)
	return en
}

// index builds an index b-tree: `fan` entries per page, fan+1 children per
// interior page, entries of interior pages sit between their children.
func (e *vhIndexEnv) index(depth, fan int) int {
	if depth == 1 {
		l := &indexLeaf{}
		for i := 0; i < fan; i++ {
			l.cells = append(l.cells, vhRecEnt(e.newEnt()))
		}
		return e.newPage(l)
	}
	in := &indexInterior{}
	for i := 0; i <= fan; i++ {
		cp := e.index(depth-1, fan)
		if i < fan {
			in.cells = append(in.cells, indexInteriorCell{left: cp, payload: vhRecEnt(e.newEnt())})
		} else {
			in.rightmost = cp
		}
	}
	return e.newPage(in)
}

// vhSameEnt: record delivered by a scan equals the abstract entry
func vhSameEnt(r Record, en vhEnt) bool {
	if len(r) != 2 {
		return false
	}
	rid, ok := r[1].(int64)
	if !ok || rid != en.rowid {
		return false
	}
	if en.null {
		return r[0] == nil
	}
	k, ok := r[0].(int64)
	return ok && k == en.k
}
