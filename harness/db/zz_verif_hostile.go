//go:build verif

package db

// Generator of hostile-but-parsable CREATE TABLE definitions (C05): the syntax
// tree the parser would produce plus the text it stands for.

import (
	"reflect"

	"github.com/alicebob/sqlittle/sql"
)

type VerifGen struct {
	AST   sql.CreateTableStmt
	Index sql.CreateIndexStmt
	Text  string
}

var vhGenNames = [3]string{"a", "b", "A"}
var vhGenKeyCols = [4]string{"a", "b", "nosuch", "a+1"}

func vhGenKeyList() ([]sql.IndexedColumn, string) {
	var r []sql.IndexedColumn
	text := ""
	n := 1 + verifChoice(2)
	for i := 0; i < n; i++ {
		k := verifChoice(len(vhGenKeyCols))
		if i > 0 {
			text += ", "
		}
		text += vhGenKeyCols[k]
		if k == 3 {
			r = append(r, sql.IndexedColumn{Expression: "\"a\"+1"})
		} else {
			r = append(r, sql.IndexedColumn{Column: vhGenKeyCols[k]})
		}
	}
	return r, text
}

// VerifGenCreateTable: sh in 0..15 fixes WITHOUT ROWID, the number of columns
// and the first column's name; everything else is a case split.
func VerifGenCreateTable(sh int) VerifGen {
	without := sh%2 == 1
	ncols := 1 + (sh/2)%2
	// (no larger bound in the thorough tier: the generator is a callee, the
	// executor holds all of its outcomes at once — 3 columns needed > 48 GB)
	ct := sql.CreateTableStmt{Table: "t", WithoutRowid: without}
	text := "CREATE TABLE t ("
	for i := 0; i < ncols; i++ {
		if i > 0 {
			text += ", "
		}
		name := (sh / 4) % 3
		if i > 0 {
			name = verifChoice(3)
		}
		c := sql.ColumnDef{Name: vhGenNames[name], Null: true}
		text += vhGenNames[name]
		if verifChoice(2) == 1 {
			c.Type = "INTEGER"
			text += " INTEGER"
		}
		switch verifChoice(3) {
		case 1:
			c.PrimaryKey = true
			text += " PRIMARY KEY"
		case 2:
			c.Unique = true
			text += " UNIQUE"
		}
		ct.Columns = append(ct.Columns, c)
	}
	ncons := verifChoice(2) // two table constraints on top of three columns exhausted the machine's memory
	for k := 0; k < ncons; k++ {
		cols, t := vhGenKeyList()
		if verifChoice(2) == 0 {
			ct.Constraints = append(ct.Constraints, sql.TablePrimaryKey{IndexedColumns: cols})
			text += ", PRIMARY KEY (" + t + ")"
		} else {
			ct.Constraints = append(ct.Constraints, sql.TableUnique{IndexedColumns: cols})
			text += ", UNIQUE (" + t + ")"
		}
	}
	text += ")"
	if without {
		text += " WITHOUT ROWID"
	}
	verifDebugf("sql=%s", text)
	return VerifGen{
		AST:   ct,
		Index: sql.CreateIndexStmt{Index: "i", Table: "t", IndexedColumns: []sql.IndexedColumn{{Column: "b"}, {Column: "a"}}},
		Text:  text,
	}
}

// ParsesToSelf is evaluated by native replays only: the generated tree is the
// one the real parser builds from the text.
func (g VerifGen) ParsesToSelf() bool {
	st, err := sql.Parse(g.Text)
	if err != nil {
		verifDebugf("parse: %v", err)
		return false
	}
	ct, ok := st.(sql.CreateTableStmt)
	if !ok || !reflect.DeepEqual(ct, g.AST) {
		verifDebugf("parsed %#v\n   gen %#v", st, g.AST)
		return false
	}
	ix, err := sql.Parse("CREATE INDEX i ON t (b, a)")
	return err == nil && reflect.DeepEqual(ix, g.Index)
}

// VerifSchemaOf is newSchema after its parsing steps: the checks and
// constructors it applies to a parsed CREATE TABLE and the parsed CREATE INDEX
// statements of the table.
func VerifSchemaOf(ct sql.CreateTableStmt, idx ...sql.CreateIndexStmt) (*Schema, error) {
	if err := checkConstraintColumns(ct); err != nil {
		return nil, err
	}
	st := newCreateTable(ct)
	for _, ci := range idx {
		st.addCreateIndex(ci)
	}
	return st, nil
}

// The schema stage alone, on the same generated definitions.
//verif:prop C05
//verif:shards 16
//verif:witnesses 16
//verif:bounds the generated definitions of VH_C05_hostile_gen through checkConstraintColumns, newCreateTable, addCreateIndex and the Schema accessors: no panic
func VH_C05_hostile_ast() {
	g := VerifGenCreateTable(verifShard(16))
	if verifNative() {
		verifAssert(g.ParsesToSelf(), "generated syntax tree equals the parse of its text")
	}
	s, err := VerifSchemaOf(g.AST, g.Index)
	if err != nil {
		verifReach("rejected")
		return
	}
	for _, n := range vhGenNames {
		_ = s.Column(n)
	}
	_ = s.NamedIndex("i")
	_ = s.NamedIndex(s.PrimaryKey)
	verifReach("end")
}
