//go:build verif

package db

// C05: arbitrary bytes through each parsing stage: no implicit obligation
// (bounds, nil, conversion, division) may fail, loops and allocations stay
// within the stated budget.


// vhFreeVarint returns k free bytes shaped as one varint of exactly k bytes
// (continuation bits fixed, 7/8 payload bits per byte free).
func vhFreeVarint(k int) []byte {
	b := verifBytes(k)
	for i := 0; i < k; i++ {
		if i < k-1 {
			verifAssume(b[i]&0x80 != 0)
		} else if k < 9 {
			verifAssume(b[i]&0x80 == 0)
		}
	}
	return b
}

// One iteration of parseRecord's column loop from an arbitrary (header, body)
// state: the header holds exactly one serial-type varint of any length 1..9
// (any value, including negative 9-byte ones), the body is any 0..9 bytes.
// By induction over the columns (iteration i of a longer record starts from the
// state header_i/body_i, which is the initial state of the record header_i ++
// body_i) this covers records of any width.
//verif:nomerge
//verif:bounds serial type = any int64 (varint of 1..9 bytes), body = any 0..9 bytes
func VH_C05_record_step() {
	k := 1 + verifChoice(9)
	st := vhFreeVarint(k)
	nb := verifChoice(10)
	body := verifBytes(nb)
	rec := make([]byte, 0, 1+k+nb)
	rec = append(rec, byte(1+k))
	rec = append(rec, st...)
	rec = append(rec, body...)
	out, err := parseRecord(rec)
	if err == nil {
		verifAssert(len(out) == 1, "one column")
		for _, v := range out {
			switch v.(type) {
			case nil, int64, float64, string, []byte:
			default:
				verifAssert(false, "record value of foreign type")
			}
		}
	}
	verifReach("end")
}

// The header-size prefix: any first varint (1..9 bytes, any value) followed by
// 0..2 more bytes; the slicing r[n:hSize], r[hSize:] must be safe.
//verif:nomerge
//verif:bounds header-size varint of 1..9 bytes with any value, 0..2 trailing bytes
func VH_C05_record_prefix() {
	k := 1 + verifChoice(9)
	hs := vhFreeVarint(k)
	nt := verifChoice(3)
	tail := verifBytes(nt)
	rec := append(append(make([]byte, 0, k+nt), hs...), tail...)
	_, _ = parseRecord(rec)
	// truncated varint: fewer bytes than the continuation bits promise
	cut := verifChoice(k)
	_, err := parseRecord(rec[:cut])
	verifAssert(err != nil || cut == 0 && false, "truncated header-size varint is an error")
	verifReach("end")
}

// vhCellStage: a free page tail of 64 bytes holding a cell at a free offset.
// Inv-cell is what later stages (addOverflow) rely on.
func vhCheckInvCell(pl cellPayload, err error) {
	if err != nil {
		return
	}
	verifAssert(pl.Length >= 0, "Inv-cell: payload length non-negative")
	if pl.Overflow == 0 {
		verifAssert(pl.Length <= int64(len(pl.Payload)), "Inv-cell: inline payload fits the bytes present")
	}
}

//verif:bounds 64 free bytes, free start offset, page size by case split over 8 sizes
func VH_C05_cell_table_leaf() {
	buf := verifBytes(64)
	off := verifInt()
	verifAssume(off >= 0 && off <= 64)
	u := verifPageSizes[verifChoice(8)]
	c, err := parseTableLeaf(buf[off:], u)
	vhCheckInvCell(c.payload, err)
	verifReach("end")
}

//verif:bounds as VH_C05_cell_table_leaf
func VH_C05_cell_table_interior() {
	buf := verifBytes(64)
	off := verifInt()
	verifAssume(off >= 0 && off <= 64)
	_, _ = parseTableInterior(buf[off:])
	verifReach("end")
}

//verif:bounds as VH_C05_cell_table_leaf
func VH_C05_cell_index_leaf() {
	buf := verifBytes(64)
	off := verifInt()
	verifAssume(off >= 0 && off <= 64)
	u := verifPageSizes[verifChoice(8)]
	pl, err := parseIndexLeaf(buf[off:], u)
	vhCheckInvCell(pl, err)
	verifReach("end")
}

//verif:bounds as VH_C05_cell_table_leaf
func VH_C05_cell_index_interior() {
	buf := verifBytes(64)
	off := verifInt()
	verifAssume(off >= 0 && off <= 64)
	u := verifPageSizes[verifChoice(8)]
	c, err := parseIndexInterior(buf[off:], u)
	vhCheckInvCell(c.payload, err)
	verifReach("end")
}

// addOverflow on any cell payload satisfying Inv-cell, with a pager that
// answers every page number with free bytes (so cyclic and over-long chains are
// included): no panic, at most ceil(Length/(U-4))+1 page reads.
//verif:unwind 8
//verif:steps 4000
//verif:bounds page size scaled down to U=16 (addOverflow is size-agnostic; keeps arrays small), local payload <= 8 bytes, declared Length any int64 >= 0, hostile chain of any shape incl. cycles and early ends
func VH_C05_overflow_chain() {
	const U = 16
	local := verifBytes(8)
	n := verifInt()
	verifAssume(n >= 0 && n <= 8)
	pl := cellPayload{Length: verifInt64(), Payload: local[:n], Overflow: int(verifUint32())}
	verifAssume(pl.Length >= 0) // any declared length, however large
	if pl.Overflow == 0 {
		verifAssume(pl.Length <= int64(n))
	}
	pg := verifBytes(U)
	pager := &vhAnyPager{buf: pg}
	db := &Database{l: pager, header: &header{PageSize: U}, btreeCache: newBtreeCache(CachePages)}
	out, err := addOverflow(db, pl)
	if err == nil {
		verifAssert(int64(len(out)) == pl.Length, "assembled payload has the declared length")
	}
	need := (pl.Length + U - 5) / (U - 4)
	verifAssert(int64(pager.reads) <= need+1 || pl.Length > 1000, "page reads bounded by the declared length")
	verifAssert(pager.reads <= 3, "a chain through one physical page is cut at the first revisit")
	verifReach("end")
}

// vhAnyPager answers every page request with the same free page (its next
// pointer is free, so the chain may be cyclic or endless) or fails.
type vhAnyPager struct {
	buf   []byte
	reads int
}

func (p *vhAnyPager) page(n int, pagesize int) ([]byte, error) {
	p.reads++
	if verifBool() {
		return nil, errVerifIO
	}
	return p.buf[:pagesize], nil
}
func (p *vhAnyPager) Close() error                     { return nil }
func (p *vhAnyPager) RLock() error                     { return nil }
func (p *vhAnyPager) RUnlock() error                   { return nil }
func (p *vhAnyPager) CheckReservedLock() (bool, error) { return false, nil }

// Page stage: any 64 bytes as a b-tree page with at most 2 cells declared (the
// per-cell work is the cell stage's; what is new here is the page header, the
// cell-pointer array and the dispatch on the page type).
//verif:unwind 12
//verif:bounds 64 free bytes, cell count field <= 2 (assumed), any page type byte, page size 512
func VH_C05_page() {
	b := verifBytes(64)
	verifAssume(b[3] == 0 && b[4] <= 2)
	p, err := newBtree(b, false, 512)
	if err == nil {
		switch x := p.(type) {
		case *tableLeaf:
			for _, c := range x.cells {
				vhCheckInvCell(c.payload, nil)
			}
		case *indexLeaf:
			for _, c := range x.cells {
				vhCheckInvCell(c, nil)
			}
		case *indexInterior:
			for _, c := range x.cells {
				vhCheckInvCell(c.payload, nil)
			}
		case *tableInterior:
		default:
			verifAssert(false, "newBtree returns one of the four page kinds")
		}
	}
	verifReach("end")
}

// Cell-pointer array with ANY declared cell count (the page stage above bounds
// the count by 2 to keep the per-cell work small): the count is checked against
// the bytes that are there, every offset stays inside the page.
//verif:unwind 40
//verif:bounds 64-byte page, page header of 8 or 12 bytes, declared cell count 0..65535, any pointer bytes; called the way the four page constructors call it (pointers = rest of the page after the header, maxLen = page length)
func VH_C05_cellpointers() {
	b := verifBytes(64)
	h := 8 + 4*verifChoice(2)
	n := int(b[3])<<8 | int(b[4])
	cs, err := parseCellpointers(n, b[h:], len(b))
	if err == nil {
		verifAssert(len(cs) == n, "one offset per declared cell")
		verifAssert(2*n <= len(b)-h, "the declared cells fit the pointer array")
		verifReach("accepted")
	} else {
		verifReach("rejected")
	}
}

// Traversal stage: child pointers are hostile. Every page number resolves to
// the same interior page (a cycle through itself): the scan must end with an
// error within a budget proportional to the recursion limit, not explore
// (cells+1)^31 paths.
//verif:steps 60000
//verif:bounds one table-interior / index-interior page with 1 cell whose child pointers all resolve to that page itself; full scans, rowid lookup and from-key scan with symbolic keys
func VH_C05_cyclic_children() {
	e := vhNewEnv()
	var err error
	calls := 0
	switch verifChoice(4) {
	case 0:
		self := &tableInterior{cells: []tableInteriorCell{{left: 2, key: verifInt64()}}, rightmost: 2}
		e.db.btreeCache.set(2, self)
		t := &Table{db: e.db, root: 2}
		err = t.Scan(func(int64, Record) bool { calls++; return false })
	case 1:
		// rowid lookup through the cycle (any rowid, any separator)
		self := &tableInterior{cells: []tableInteriorCell{{left: 2, key: verifInt64()}}, rightmost: 2}
		e.db.btreeCache.set(2, self)
		t := &Table{db: e.db, root: 2}
		_, err = t.Rowid(verifInt64())
	case 2:
		// keyed index scan through the cycle
		self := &indexInterior{cells: []indexInteriorCell{{left: 2, payload: vhRecEnt(vhEnt{k: verifInt64(), rowid: verifInt64()})}}, rightmost: 2}
		e.db.btreeCache.set(2, self)
		in := &Index{db: e.db, root: 2}
		err = in.ScanMin(Key{{V: verifInt64()}}, func(Record) bool { calls++; return false })
	default:
		self := &indexInterior{cells: []indexInteriorCell{{left: 2, payload: vhRecEnt(vhEnt{k: verifInt64(), rowid: verifInt64()})}}, rightmost: 2}
		e.db.btreeCache.set(2, self)
		in := &Index{db: e.db, root: 2}
		err = in.Scan(func(Record) bool { calls++; return false })
	}
	verifAssert(err != nil, "a cyclic tree is reported as an error")
	verifReach("end")
}
