//go:build verif

package db

// Harness environment: an in-memory pager and constructors for Database
// handles whose pages are solver variables.

import (
	"errors"
	"math"
)

var mathFloat64bits = math.Float64bits

var (
	errVerifIO     = errors.New("verif: injected I/O error")
	errVerifNoPage = errors.New("verif: no such page")
	errVerifLock   = errors.New("verif: injected lock failure")
)

// VerifPager serves pages from memory. Page ids may be symbolic. It records a
// ghost event log: 'L' lock, 'U' unlock, 'P' page read (inside/outside lock is
// checked by the harness through Locked/BadRead).
type VerifPager struct {
	IDs      []int
	Bufs     [][]byte
	FailAt   int  // ordinal (1-based) of the page read that fails; 0 = never
	FailKind int  // 0 = I/O error, 1 = short read (nil page, error)
	LockFail bool // RLock fails
	Reads    int
	Locked   bool
	Locks    int
	Unlocks  int
	BadRead  int // page reads (beyond the 100-byte header probe) while not locked
	Reserved bool
	Closed   bool
	Copy     bool // hand out a copy of the page, like the real pager does
}

func (p *VerifPager) page(n int, pagesize int) ([]byte, error) {
	p.Reads++
	if !p.Locked {
		p.BadRead++
	}
	if p.FailAt != 0 && p.Reads == p.FailAt {
		return nil, errVerifIO
	}
	for i, id := range p.IDs {
		if id == n {
			b := p.Bufs[i]
			if len(b) < pagesize {
				return nil, errVerifNoPage
			}
			if p.Copy {
				c := make([]byte, pagesize)
				copy(c, b[:pagesize])
				return c, nil
			}
			return b[:pagesize], nil
		}
	}
	return nil, errVerifNoPage
}

func (p *VerifPager) Close() error { p.Closed = true; return nil }
func (p *VerifPager) RLock() error {
	if p.LockFail {
		return errVerifLock
	}
	p.Locked = true
	p.Locks++
	return nil
}
func (p *VerifPager) RUnlock() error {
	p.Locked = false
	p.Unlocks++
	return nil
}
func (p *VerifPager) CheckReservedLock() (bool, error) { return p.Reserved, nil }

// VerifRawDatabase builds a handle around a pager without reading anything:
// the header is taken as given (page size only).
func VerifRawDatabase(p *VerifPager, pageSize int) *Database {
	return &Database{
		l:          p,
		header:     &header{PageSize: pageSize},
		btreeCache: newBtreeCache(CachePages),
	}
}

var verifPageSizes = [9]int{512, 1024, 2048, 4096, 8192, 16384, 32768, 65536, 65536}

func be32(b []byte, off int) uint32 {
	return uint32(b[off])<<24 | uint32(b[off+1])<<16 | uint32(b[off+2])<<8 | uint32(b[off+3])
}

func vhFloatBits(f float64) uint64 { return mathFloat64bits(f) }

// vhHeaderPage: a page 1 with a valid header (UTF-8, format 4, rollback
// journal mode) and free change counter / schema cookie; the b-tree part is an
// empty table leaf.
func vhHeaderPage(pageSize int, change, cookie uint32) []byte {
	b := make([]byte, pageSize)
	copy(b, "SQLite format 3\x00")
	ps := pageSize
	if ps == 65536 {
		ps = 1
	}
	b[16], b[17] = byte(ps>>8), byte(ps)
	b[18], b[19] = 1, 1
	b[21], b[22], b[23] = 64, 32, 32
	put32 := func(off int, v uint32) {
		b[off], b[off+1], b[off+2], b[off+3] = byte(v>>24), byte(v>>16), byte(v>>8), byte(v)
	}
	put32(24, change)
	put32(40, cookie)
	put32(44, 4)
	put32(56, 1)
	b[100] = 0x0d // empty table leaf
	b[105], b[106] = byte(pageSize>>8), byte(pageSize)
	return b
}
