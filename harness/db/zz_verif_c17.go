//go:build verif

package db

// C17 (early stop) and C01 (full table scan) at the traversal level.

//verif:shards 8
//verif:bounds table b-trees as C04's shapes; full scan
func VH_C01_table_scan() {
	depth, fan := vhTreeShape()
	e := vhNewEnv()
	root, _, _ := e.table(depth, fan)
	e.constrainSeparators(root)
	t := &Table{db: e.db, root: root}
	var ids, vals []int64
	err := t.Scan(func(rowid int64, r Record) bool {
		v, _ := r[0].(int64)
		ids = append(ids, rowid)
		vals = append(vals, v)
		return false
	})
	verifAssert(err == nil, "scan succeeds")
	verifAssert(len(ids) == len(e.rows), "every row exactly once")
	if len(ids) == len(e.rows) {
		for i, r := range e.rows {
			verifAssert(ids[i] == r.rowid && vals[i] == r.val, "rows in rowid order with their values")
		}
	}
	verifReach("end")
}

//verif:shards 8
//verif:bounds table b-trees as C04's shapes; stop position k = any int >= 1
func VH_C17_table_stop() {
	depth, fan := vhTreeShape()
	e := vhNewEnv()
	root, _, _ := e.table(depth, fan)
	e.constrainSeparators(root)
	t := &Table{db: e.db, root: root}
	k := verifInt()
	verifAssume(k >= 1)
	var ids []int64
	calls := 0
	err := t.Scan(func(rowid int64, r Record) bool {
		calls++
		ids = append(ids, rowid)
		return calls == k
	})
	verifAssert(err == nil, "stopped scan returns no error")
	want := len(e.rows)
	if k < want {
		want = k
	}
	verifAssert(calls == want, "callback invoked exactly min(k, N) times")
	if calls == want {
		for i := 0; i < want; i++ {
			verifAssert(ids[i] == e.rows[i].rowid, "delivered rows are the first k of the full result")
		}
	}
	verifReach("end")
}

//verif:shards 8
//verif:bounds index b-trees as C13's; scan kinds Scan / ScanMin / ScanEq(empty key) / ScanRange(empty lower, absent upper); stop position k = any int >= 1
func VH_C17_index_stop() {
	e, in := vhIndexSetup()
	deep := len(e.ents) == 7 // depth 3, one entry per page
	if len(e.ents) > 5 && !deep {
		// trees of <= 5 entries, plus the 7-entry depth-3 shape
		verifReach("end")
		return
	}
	k := verifInt()
	verifAssume(k >= 1)
	calls := 0
	var got []Record
	cb := func(r Record) bool {
		calls++
		got = append(got, r)
		return calls == k
	}
	var err error
	first := 0
	op := verifChoice(3)
	if deep && verifTier() == 0 {
		verifAssume(op == 1) // quick tier: the 3-level tree only with the from-key scan
	}
	switch op {
	case 0:
		err = in.Scan(cb)
	case 1:
		// from a key: the suffix starts at the first entry >= key
		kv := vhEnt{k: verifInt64()}
		err = in.ScanMin(Key{{V: kv.k, Desc: e.desc}}, cb)
		first = len(e.ents)
		for i := len(e.ents) - 1; i >= 0; i-- {
			if vhEntGE(e.ents[i], kv, 1, e.desc) {
				first = i
			}
		}
	case 2:
		err = in.ScanEq(Key{}, cb)
	}
	verifAssert(err == nil, "stopped scan returns no error")
	want := len(e.ents) - first
	if k < want {
		want = k
	}
	verifAssert(calls == want, "callback invoked exactly min(k, N) times")
	if calls == want {
		for i := 0; i < want; i++ {
			verifAssert(vhSameEnt(got[i], e.ents[first+i]), "delivered entries are the first k of the full result")
		}
	}
	verifReach("end")
}

// Stopping on a row whose record spills to an overflow page (the scan adapter
// assembles such rows on a different path from inline ones).
//verif:bounds table leaf of 3 rows each spilling to one overflow page (rowids, values symbolic); the callback asks to stop at its k-th call, k = 1..4
func VH_C17_overflow_stop() {
	e := vhNewEnv()
	l := &tableLeaf{}
	var rows []vhRow
	for i := 0; i < 3; i++ {
		r := vhRow{rowid: verifInt64(), val: verifInt64()}
		if i > 0 {
			verifAssume(rows[i-1].rowid < r.rowid)
		}
		rows = append(rows, r)
		full := vhRecInt(r.val).Payload
		pg := make([]byte, 512)
		copy(pg[4:], full[4:])
		id := 200 + i
		e.pager.IDs = append(e.pager.IDs, id)
		e.pager.Bufs = append(e.pager.Bufs, pg)
		l.cells = append(l.cells, tableLeafCell{left: r.rowid, payload: cellPayload{Length: int64(len(full)), Payload: full[:4], Overflow: id}})
	}
	t := &Table{db: e.db, root: e.newPage(l)}
	k := 1 + verifChoice(4)
	calls := 0
	var ids, vals []int64
	err := t.Scan(func(id int64, r Record) bool {
		calls++
		v, _ := r[0].(int64)
		ids, vals = append(ids, id), append(vals, v)
		return calls >= k
	})
	verifAssert(err == nil, "a stopped scan is not an error")
	want := k
	if want > 3 {
		want = 3
	}
	verifAssert(calls == want, "exactly min(k, N) callbacks")
	for i := range ids {
		verifAssert(i < 3 && ids[i] == rows[i].rowid && vals[i] == rows[i].val, "the rows delivered are the first ones")
	}
	verifReach("end")
}
