//go:build verif

package db

// C14 kernels: varints and fixed-width integers against an independent
// transcription of the file-format spec (sqlite3GetVarint).

// rmGetVarint: reference decoder. Returns value and number of bytes, or (0,-1)
// when the buffer ends first.
func rmGetVarint(b []byte) (int64, int) {
	var v uint64
	for i := 0; i < 8; i++ {
		if i >= len(b) {
			return 0, -1
		}
		v = v<<7 | uint64(b[i]&0x7f)
		if b[i]&0x80 == 0 {
			return int64(v), i + 1
		}
	}
	if len(b) < 9 {
		return 0, -1
	}
	v = v<<8 | uint64(b[8])
	return int64(v), 9
}

//verif:bounds 9 free bytes, slice length 0..10 (symbolic)
func VH_C14_varint_decode() {
	buf := verifBytes(10)
	n := verifInt()
	verifAssume(n >= 0 && n <= 10)
	b := buf[:n]
	got, gn := readVarint(b)
	want, wn := rmGetVarint(b)
	verifAssert(gn == wn, "varint length")
	verifAssert(got == want, "varint value")
	verifObserve(got)
	verifReach("end")
}

func VH_C14_twos24() {
	b := verifBytes(3)
	got := readTwos24(b)
	u := uint32(b[0])<<16 | uint32(b[1])<<8 | uint32(b[2])
	want := int64(int32(u<<8) >> 8)
	verifAssert(got == want, "24-bit sign extension")
	verifObserve(got)
	verifReach("end")
}

func VH_C14_twos48() {
	b := verifBytes(6)
	got := readTwos48(b)
	var u uint64
	for i := 0; i < 6; i++ {
		u = u<<8 | uint64(b[i])
	}
	want := int64(u<<16) >> 16
	verifAssert(got == want, "48-bit sign extension")
	verifObserve(got)
	verifReach("end")
}

// ---- local payload size (spill thresholds) ----

// rmLocalSize: SQLite's btreeParseCellAdjustSizeForOverflow formulation
// (minLocal/maxLocal/surplus), transcribed from btree.c, not from sqlittle.
func rmLocalSize(nPayload int64, usable int64, leafTable bool) int64 {
	var maxLocal, minLocal int64
	if leafTable {
		maxLocal = usable - 35
	} else {
		maxLocal = (usable-12)*64/255 - 23
	}
	minLocal = (usable-12)*32/255 - 23
	if nPayload <= maxLocal {
		return nPayload
	}
	surplus := minLocal + (nPayload-minLocal)%(usable-4)
	if surplus <= maxLocal {
		return surplus
	}
	return minLocal
}

//verif:bounds 8 page sizes 512..65536 (case split), every payload length 0 <= P < 2^31, table-leaf threshold
func VH_C14_local_table() {
	u := verifPageSizes[verifChoice(8)]
	p := verifInt64()
	verifAssume(p >= 0 && p < 1<<31)
	got := calculateCellInPageBytes(p, u, u-35)
	want := rmLocalSize(p, int64(u), true)
	verifAssert(int64(got) == want, "local payload size (table leaf)")
	verifReach("end")
}

//verif:bounds 8 page sizes 512..65536 (case split), every payload length 0 <= P < 2^31, index threshold
func VH_C14_local_index() {
	u := verifPageSizes[verifChoice(8)]
	p := verifInt64()
	verifAssume(p >= 0 && p < 1<<31)
	got := calculateCellInPageBytes(p, u, ((u-12)*64/255)-23)
	want := rmLocalSize(p, int64(u), false)
	verifAssert(int64(got) == want, "local payload size (index)")
	verifReach("end")
}

// Structural form of the spec (fileformat2 §1.6): L <= X; when spilling,
// L >= M and the overflow pages other than possibly none are exactly full
// unless L == M.
//verif:tier thorough
//verif:timeout 300000
//verif:bounds page sizes 512..4096, P < 2^20; structural spec (P-L) mod (U-4) == 0 or L == M
func VH_C14_local_structural() {
	u := int64(verifPageSizes[verifChoice(4)])
	tbl := verifChoice(2) == 0
	p := verifInt64()
	verifAssume(p >= 0 && p < 1<<20)
	x := (u-12)*64/255 - 23
	if tbl {
		x = u - 35
	}
	m := (u-12)*32/255 - 23
	l := int64(calculateCellInPageBytes(p, int(u), int(x)))
	verifAssert(l <= x && l <= p && l >= 0, "local size within page")
	if p > x {
		verifAssert(l >= m, "spilled cell keeps at least M bytes")
		verifAssert(l == m || (p-l)%(u-4) == 0, "overflow pages full unless minimum local")
	} else {
		verifAssert(l == p, "small payload stays inline")
	}
	verifReach("end")
}

// ---- records ----

// serial types exercised: every fixed type plus short blobs/texts and one
// two-byte serial type (text of 58 bytes => 129).
var vhSerials = [...]int{0, 1, 2, 3, 4, 5, 6, 7, 8, 9, 12, 13, 14, 15, 16, 17, 18, 19, 129}

func vhSerialLen(c int) int {
	switch c {
	case 0, 8, 9:
		return 0
	case 1:
		return 1
	case 2:
		return 2
	case 3:
		return 3
	case 4:
		return 4
	case 5:
		return 6
	case 6, 7:
		return 8
	}
	if c%2 == 0 {
		return (c - 12) / 2
	}
	return (c - 13) / 2
}

// vhCheckValue compares one decoded value with the spec reading of its body bytes.
func vhCheckValue(v interface{}, c int, body []byte) {
	be := func(n int) uint64 {
		var u uint64
		for i := 0; i < n; i++ {
			u = u<<8 | uint64(body[i])
		}
		return u
	}
	switch c {
	case 0:
		verifAssert(v == nil, "NULL decodes to nil")
	case 1:
		n, ok := v.(int64)
		verifAssert(ok && n == int64(int8(be(1))), "int8 value")
	case 2:
		n, ok := v.(int64)
		verifAssert(ok && n == int64(int16(be(2))), "int16 value")
	case 3:
		n, ok := v.(int64)
		verifAssert(ok && n == int64(be(3)<<40)>>40, "int24 value")
	case 4:
		n, ok := v.(int64)
		verifAssert(ok && n == int64(int32(be(4))), "int32 value")
	case 5:
		n, ok := v.(int64)
		verifAssert(ok && n == int64(be(6)<<16)>>16, "int48 value")
	case 6:
		n, ok := v.(int64)
		verifAssert(ok && n == int64(be(8)), "int64 value")
	case 7:
		f, ok := v.(float64)
		verifAssert(ok, "float type")
		if ok {
			verifAssert(vhFloatBits(f) == be(8), "float64 bit pattern")
		}
	case 8:
		n, ok := v.(int64)
		verifAssert(ok && n == 0, "constant 0")
	case 9:
		n, ok := v.(int64)
		verifAssert(ok && n == 1, "constant 1")
	default:
		l := vhSerialLen(c)
		if c%2 == 0 {
			b, ok := v.([]byte)
			verifAssert(ok && len(b) == l, "blob type and length")
			if ok && len(b) == l {
				for i := 0; i < l; i++ {
					verifAssert(b[i] == body[i], "blob byte")
				}
			}
		} else {
			s, ok := v.(string)
			verifAssert(ok && len(s) == l, "text type and length")
			if ok && len(s) == l {
				for i := 0; i < l; i++ {
					verifAssert(s[i] == body[i], "text byte")
				}
			}
		}
	}
}

// vhBuildRecord writes a record header for the chosen serial types in front of
// a free body. Returns the record and the body offset.
func vhBuildRecord(serials []int) ([]byte, int) {
	hdr := 0
	bodyLen := 0
	for _, c := range serials {
		if c < 128 {
			hdr++
		} else {
			hdr += 2
		}
		bodyLen += vhSerialLen(c)
	}
	hs := hdr + 1
	if hs > 127 {
		hs = hdr + 2
	}
	body := verifBytes(bodyLen)
	rec := make([]byte, 0, hs+bodyLen)
	if hs > 127 {
		rec = append(rec, byte(0x80|hs>>7), byte(hs&0x7f))
	} else {
		rec = append(rec, byte(hs))
	}
	for _, c := range serials {
		if c < 128 {
			rec = append(rec, byte(c))
		} else {
			rec = append(rec, byte(0x80|c>>7), byte(c&0x7f))
		}
	}
	rec = append(rec, body...)
	return rec, hs
}

//verif:bounds records of 0..3 columns, each column any of 19 serial types (all fixed-width types, blobs/texts of 0..3 bytes, one 58-byte text with a 2-byte serial type); body bytes free
func VH_C14_record() {
	k := verifChoice(4)
	serials := make([]int, k)
	for i := range serials {
		serials[i] = vhSerials[verifChoice(len(vhSerials))]
	}
	rec, off := vhBuildRecord(serials)
	got, err := parseRecord(rec)
	verifAssert(err == nil, "well-formed record parses")
	verifAssert(len(got) == k, "column count")
	if err == nil && len(got) == k {
		for i, c := range serials {
			l := vhSerialLen(c)
			vhCheckValue(got[i], c, rec[off:off+l])
			off += l
		}
	}
	verifReach("end")
}

//verif:bounds record header longer than 127 bytes (2-byte header-size varint): 130 columns of NULL/0/1 plus two free trailing columns
func VH_C14_record_longheader() {
	serials := make([]int, 0, 132)
	for i := 0; i < 130; i++ {
		serials = append(serials, [3]int{0, 8, 9}[i%3])
	}
	serials = append(serials, vhSerials[verifChoice(len(vhSerials))], 6)
	rec, off := vhBuildRecord(serials)
	got, err := parseRecord(rec)
	verifAssert(err == nil, "well-formed record parses")
	verifAssert(len(got) == len(serials), "column count")
	if err == nil && len(got) == len(serials) {
		for i, c := range serials {
			l := vhSerialLen(c)
			vhCheckValue(got[i], c, rec[off:off+l])
			off += l
		}
	}
	verifReach("end")
}

// ---- spilled payloads: cell parser + addOverflow against the layout rule ----

// vhSpill checks one cell kind at U=512. cellKind: 0 table leaf, 1 index leaf,
// 2 index interior. The cell bytes and up to three overflow pages are free
// buffers; the reference (rmGetVarint, rmLocalSize, "4-byte next pointer then
// U-4 content bytes") says where byte i of the payload lives.
func vhSpill(cellKind int) {
	const U = 512
	cell := verifBytes(520)
	pos := 0
	var wantLeft uint32
	if cellKind == 2 {
		wantLeft = be32(cell, 0)
		pos = 4
	}
	p, n := rmGetVarint(cell[pos:])
	verifAssume(n > 0)
	pos += n
	var wantRowid int64
	if cellKind == 0 {
		r, n2 := rmGetVarint(cell[pos:])
		verifAssume(n2 > 0)
		wantRowid = r
		pos += n2
	}
	local := rmLocalSize(p, U, cellKind == 0)
	nov := verifChoice(3 + verifTier()) // number of overflow pages (quick: 0..2, thorough: 0..3)
	rest := p - local
	verifAssume(p >= 0)
	if nov == 0 {
		verifAssume(rest == 0)
	} else {
		verifAssume(rest > int64(nov-1)*(U-4) && rest <= int64(nov)*(U-4))
	}
	pager := &VerifPager{Locked: true}
	next := uint32(0)
	if nov > 0 {
		next = be32(cell, pos+int(local))
	}
	for k := 0; k < nov; k++ {
		verifAssume(next != 0 && next < 1<<31)
		buf := verifBytes(U)
		pager.IDs = append(pager.IDs, int(next))
		pager.Bufs = append(pager.Bufs, buf)
		next = be32(buf, 0)
	}
	if nov > 0 {
		verifAssume(next == 0) // chain ends
		// distinct pages (a chain never revisits a page)
		for a := 0; a < nov; a++ {
			for b := a + 1; b < nov; b++ {
				verifAssume(pager.IDs[a] != pager.IDs[b])
			}
		}
	}
	db := VerifRawDatabase(pager, U)

	var pl cellPayload
	var err error
	switch cellKind {
	case 0:
		var c tableLeafCell
		c, err = parseTableLeaf(cell, U)
		pl = c.payload
		verifAssert(err != nil || c.left == wantRowid, "rowid")
	case 1:
		pl, err = parseIndexLeaf(cell, U)
	case 2:
		var c indexInteriorCell
		c, err = parseIndexInterior(cell, U)
		pl = c.payload
		verifAssert(err != nil || c.left == int(wantLeft), "left child pointer")
	}
	verifAssert(err == nil, "well-formed cell parses")
	if err != nil {
		return
	}
	out, err := addOverflow(db, pl)
	verifAssert(err == nil, "overflow chain loads")
	if err != nil {
		return
	}
	verifAssert(int64(len(out)) == p, "payload length")
	i := verifInt64()
	verifAssume(i >= 0 && i < p)
	if int64(len(out)) == p {
		var want byte
		if i < local {
			want = cell[pos+int(i)]
		} else {
			j := i - local
			switch {
			case j < U-4:
				want = pager.Bufs[0][4+int(j)]
			case j < 2*(U-4):
				want = pager.Bufs[1][4+int(j-(U-4))]
			default:
				want = pager.Bufs[2][4+int(j-2*(U-4))]
			}
		}
		verifAssert(out[i] == want, "payload byte")
	}
	verifReach("end")
}

//verif:merge rmGetVarint,rmLocalSize
//verif:bounds U=512; payload length symbolic in [0, X+3*(U-4)] over 0..3 overflow pages; cell bytes, page numbers and page contents free; one skolem index for the content
func VH_C14_spill_table_leaf() { vhSpill(0) }

//verif:prop C14,C02,C01
//verif:merge rmGetVarint,rmLocalSize
//verif:bounds as VH_C14_spill_table_leaf, index threshold
func VH_C14_spill_index_leaf() { vhSpill(1) }

//verif:prop C14,C02,C01
//verif:merge rmGetVarint,rmLocalSize
//verif:bounds as VH_C14_spill_table_leaf, index interior cell (4-byte child pointer first)
func VH_C14_spill_index_interior() { vhSpill(2) }
