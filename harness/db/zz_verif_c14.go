//go:build verif

package db

// C14 kernels: varints and fixed-width integers against an independent
// transcription of the file-format spec (sqlite3GetVarint).

// rmGetVarint: reference decoder. Returns value and number of bytes, or (0,-1)
// when the buffer ends first.
func rmGetVarint(b []byte) (int64, int) {
	var v uint64
	for i := 0; i < 8; i++ {
		if i >= len(b) {
			return 0, -1
		}
		v = v<<7 | uint64(b[i]&0x7f)
		if b[i]&0x80 == 0 {
			return int64(v), i + 1
		}
	}
	if len(b) < 9 {
		return 0, -1
	}
	v = v<<8 | uint64(b[8])
	return int64(v), 9
}

//verif:bounds 9 free bytes, slice length 0..10 (symbolic)
func VH_C14_varint_decode() {
	buf := verifBytes(10)
	n := verifInt()
	verifAssume(n >= 0 && n <= 10)
	b := buf[:n]
	got, gn := readVarint(b)
	want, wn := rmGetVarint(b)
	verifAssert(gn == wn, "varint length")
	verifAssert(got == want, "varint value")
	verifObserve(got)
	verifReach("end")
}

func VH_C14_twos24() {
	b := verifBytes(3)
	got := readTwos24(b)
	u := uint32(b[0])<<16 | uint32(b[1])<<8 | uint32(b[2])
	want := int64(int32(u<<8) >> 8)
	verifAssert(got == want, "24-bit sign extension")
	verifObserve(got)
	verifReach("end")
}

func VH_C14_twos48() {
	b := verifBytes(6)
	got := readTwos48(b)
	var u uint64
	for i := 0; i < 6; i++ {
		u = u<<8 | uint64(b[i])
	}
	want := int64(u<<16) >> 16
	verifAssert(got == want, "48-bit sign extension")
	verifObserve(got)
	verifReach("end")
}
