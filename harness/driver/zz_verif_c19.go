//go:build verif

package driver

// C19, sequential obligations only: column expansion and the result-set
// protocol of Rows.Next. The producer goroutine, cancellation and Close are
// schedule questions the executor does not encode (see MANIFEST not_applicable
// note on C19's schedule clause).

import (
	"context"
	"database/sql/driver"
	"errors"
	"io"

	"github.com/alicebob/sqlittle"
	sdb "github.com/alicebob/sqlittle/db"
	sqsql "github.com/alicebob/sqlittle/sql"
)

var vhErrScan = errors.New("verif: scan failed")

//verif:bounds result sets of 0..2 rows of 1..2 symbolic int64 columns handed over a channel, then closed, with or without a stored scan error
func VH_C19_next() {
	n := sdb.VerifChoice(3)
	w := 1 + sdb.VerifChoice(2)
	rs := &Rows{columns: []string{"a", "b"}[:w], rows: make(chan sqlittle.Row, 3)}
	var want [][]int64
	for i := 0; i < n; i++ {
		row := make(sqlittle.Row, w)
		vals := make([]int64, w)
		for j := range row {
			vals[j] = sdb.VerifInt64()
			row[j] = vals[j]
		}
		want = append(want, vals)
		rs.rows <- row
	}
	close(rs.rows)
	failed := sdb.VerifChoice(2) == 1
	if failed {
		rs.err = vhErrScan
	}
	dest := make([]driver.Value, w)
	for i := 0; i < n; i++ {
		err := rs.Next(dest)
		sdb.VerifAssert(err == nil, "queued rows are delivered before the end")
		for j := 0; j < w; j++ {
			v, ok := dest[j].(int64)
			sdb.VerifAssert(ok && v == want[i][j], "row values in order")
		}
	}
	err := rs.Next(dest)
	if failed {
		sdb.VerifAssert(err == vhErrScan, "an error met during the scan surfaces through Next, not as a silent end")
	} else {
		sdb.VerifAssert(err == io.EOF, "end of rows")
	}
	sdb.VerifAssert(len(rs.Columns()) == w, "column names")
	sdb.VerifReach("end")
}

//verif:bounds table t(a,b,c) x every select list of 1..4 items (thorough: 1..5) drawn from {*, a, b, c, ROWID}, written as SQL text and parsed by the real parser (so the column slice has the parser's length and capacity); unknown table
//verif:shards 5
func VH_C19_expand() {
	f := sdb.VerifNewFile(512)
	root := f.AddPage()
	f.Master([]sdb.VerifMasterRow{{Typ: "table", Name: "t", Tbl: "t", Root: root, SQL: "CREATE TABLE t (a, b, c)"}})
	f.TableLeaf(root, nil, 1, nil)
	d, err := f.Open()
	sdb.VerifNoErr(err, "valid file opens")
	st := &Statement{dbh: sqlittle.VerifWrap(d)}
	items := [5]string{"*", "a", "b", "c", "ROWID"} // the parser reports the keyword in upper case
	n := 1 + sdb.VerifChoice(4+sdb.VerifTier())
	text := "SELECT "
	var want []string
	for i := 0; i < n; i++ {
		var k int
		if i == 0 {
			k = sdb.VerifShard(5)
		} else {
			k = sdb.VerifChoice(5)
			text += ", "
		}
		text += items[k]
		if k == 0 {
			want = append(want, "a", "b", "c")
		} else {
			want = append(want, items[k])
		}
	}
	text += " FROM t"
	sdb.VerifDebugf("sql=%s", text)
	parsed, err := sqsql.Parse(text)
	sdb.VerifNoErr(err, "select statement parses")
	sel, ok := parsed.(sqsql.SelectStmt)
	sdb.VerifAssert(ok, "a SELECT statement")
	if !ok {
		return
	}
	got, err := st.expandSelectColumns(sel)
	sdb.VerifNoErr(err, "expansion succeeds")
	sdb.VerifAssert(len(got) == len(want), "number of columns after expanding *")
	if len(got) == len(want) {
		for i := range got {
			sdb.VerifAssert(got[i] == want[i], "* expands to all columns in definition order, in place; named columns keep their position")
		}
	}
	_, err = st.expandSelectColumns(sqsql.SelectStmt{Table: "nosuch", Columns: []string{"*"}})
	sdb.VerifAssert(err != nil, "unknown table is an error")
	sdb.VerifReach("end")
}

// The result-set life cycle with the producer goroutine, sequentialised (see
// engine/threads.go): the consumer reads k rows and then closes the result
// set; optionally one page read of the producer fails.
//verif:bounds table t(a,b) of 1..2 rows (values symbolic); query "SELECT b, * FROM t"; caller context plain or cancellable-and-live; consumer reads k = 0..n+1 rows then Close; optional one-shot page-read fault at any ordinal j; single consumer, producer run to completion under the consumer script
func VH_C19_stream() {
	n := 1 + sdb.VerifChoice(2)
	f := sdb.VerifNewFile(512)
	root := f.AddPage()
	f.Master([]sdb.VerifMasterRow{{Typ: "table", Name: "t", Tbl: "t", Root: root, SQL: "CREATE TABLE t (a, b)"}})
	var ids []int64
	var pls [][]byte
	var vals [][2]int64
	for i := 0; i < n; i++ {
		a, b := sdb.VerifInt64(), sdb.VerifInt64()
		vals = append(vals, [2]int64{a, b})
		ids = append(ids, int64(i+1))
		pls = append(pls, sdb.VerifRecord(a, b))
	}
	f.TableLeaf(root, ids, 1, pls)
	d, err := f.Open()
	sdb.VerifNoErr(err, "valid file opens")
	st := &Statement{dbh: sqlittle.VerifWrap(d), SQL: "SELECT b, * FROM t"}
	k := sdb.VerifChoice(n + 2)
	faulty := sdb.VerifChoice(2) == 1
	if faulty {
		j := sdb.VerifInt()
		sdb.VerifAssume(j >= 1 && j <= 1000)
		f.Pager.FailAt = f.Pager.Reads + j
	}
	sdb.VerifConsumerScript(k, true)
	// the caller's context: not cancellable, or cancellable and still live while
	// the result set is used (cancelled only at the very end)
	ctx := context.Background()
	callerCancel := func() {}
	if sdb.VerifChoice(2) == 1 {
		ctx, callerCancel = context.WithCancel(ctx)
	}
	defer callerCancel()
	rows, err := st.QueryContext(ctx, nil)
	if err != nil {
		// the column expansion read the schema and met the fault
		sdb.VerifAssert(faulty, "query preparation fails only because of the injected fault")
		sdb.VerifAssert(!f.Pager.Locked && f.Pager.Locks == f.Pager.Unlocks, "lock released after a failed query")
		sdb.VerifReach("query-failed")
		return
	}
	cols := rows.Columns()
	sdb.VerifAssert(len(cols) == 3 && cols[0] == "b" && cols[1] == "a" && cols[2] == "b", "columns: named column, then * expanded in definition order")
	dest := make([]driver.Value, len(cols))
	got := 0
	var nextErr error
	for i := 0; i < k; i++ {
		if e := rows.Next(dest); e != nil {
			nextErr = e
			break
		}
		if got < n && len(dest) == 3 {
			b0, ok0 := dest[0].(int64)
			a1, ok1 := dest[1].(int64)
			b2, ok2 := dest[2].(int64)
			sdb.VerifAssert(ok0 && ok1 && ok2 && b0 == vals[got][1] && a1 == vals[got][0] && b2 == vals[got][1], "rows equal the native select's rows, in order")
		}
		got++
	}
	cerr := rows.Close()
	sdb.VerifAssert(got <= n, "never more rows than the table has")
	hit := faulty && f.Pager.Reads >= f.Pager.FailAt
	if !hit {
		want := k
		if n < want {
			want = n
		}
		sdb.VerifAssert(got == want, "without a fault the consumer gets exactly the rows it asked for")
		if k > n {
			sdb.VerifAssert(nextErr == io.EOF, "reading past the last row is a clean end")
		}
		sdb.VerifAssert(cerr == nil, "Close without a fault returns nil")
	} else {
		surfaced := (nextErr != nil && nextErr != io.EOF) || cerr != nil
		sdb.VerifAssert(surfaced, "a failure met by the producer surfaces through Next or Close, never as a clean short result")
		sdb.VerifReach("fault-surfaced")
	}
	sdb.VerifAssert(!f.Pager.Locked && f.Pager.Locks == f.Pager.Unlocks, "the file lock is released once the result set is closed")
	sdb.VerifReach("end")
}
