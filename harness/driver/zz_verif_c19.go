//go:build verif

package driver

// C19, sequential obligations only: column expansion and the result-set
// protocol of Rows.Next. The producer goroutine, cancellation and Close are
// schedule questions the executor does not encode (see MANIFEST not_applicable
// note on C19's schedule clause).

import (
	"database/sql/driver"
	"errors"
	"io"

	"github.com/alicebob/sqlittle"
	sdb "github.com/alicebob/sqlittle/db"
	sqsql "github.com/alicebob/sqlittle/sql"
)

var vhErrScan = errors.New("verif: scan failed")

//verif:bounds result sets of 0..2 rows of 1..2 symbolic int64 columns handed over a channel, then closed, with or without a stored scan error
func VH_C19_next() {
	n := sdb.VerifChoice(3)
	w := 1 + sdb.VerifChoice(2)
	rs := &Rows{columns: []string{"a", "b"}[:w], rows: make(chan sqlittle.Row, 3)}
	var want [][]int64
	for i := 0; i < n; i++ {
		row := make(sqlittle.Row, w)
		vals := make([]int64, w)
		for j := range row {
			vals[j] = sdb.VerifInt64()
			row[j] = vals[j]
		}
		want = append(want, vals)
		rs.rows <- row
	}
	close(rs.rows)
	failed := sdb.VerifChoice(2) == 1
	if failed {
		rs.err = vhErrScan
	}
	dest := make([]driver.Value, w)
	for i := 0; i < n; i++ {
		err := rs.Next(dest)
		sdb.VerifAssert(err == nil, "queued rows are delivered before the end")
		for j := 0; j < w; j++ {
			v, ok := dest[j].(int64)
			sdb.VerifAssert(ok && v == want[i][j], "row values in order")
		}
	}
	err := rs.Next(dest)
	if failed {
		sdb.VerifAssert(err == vhErrScan, "an error met during the scan surfaces through Next, not as a silent end")
	} else {
		sdb.VerifAssert(err == io.EOF, "end of rows")
	}
	sdb.VerifAssert(len(rs.Columns()) == w, "column names")
	sdb.VerifReach("end")
}

//verif:bounds table t(a,b,c) x select lists {*}, {b}, {*, a}, {c, *, c}, {rowid, *}; unknown table
func VH_C19_expand() {
	f := sdb.VerifNewFile(512)
	root := f.AddPage()
	f.Master([]sdb.VerifMasterRow{{Typ: "table", Name: "t", Tbl: "t", Root: root, SQL: "CREATE TABLE t (a, b, c)"}})
	f.TableLeaf(root, nil, 1, nil)
	d, err := f.Open()
	sdb.VerifNoErr(err, "valid file opens")
	st := &Statement{dbh: sqlittle.VerifWrap(d)}
	lists := [][]string{{"*"}, {"b"}, {"*", "a"}, {"c", "*", "c"}, {"rowid", "*"}}
	wants := [][]string{{"a", "b", "c"}, {"b"}, {"a", "b", "c", "a"}, {"c", "a", "b", "c", "c"}, {"rowid", "a", "b", "c"}}
	k := sdb.VerifChoice(len(lists))
	got, err := st.expandSelectColumns(sqsql.SelectStmt{Table: "t", Columns: lists[k]})
	sdb.VerifNoErr(err, "expansion succeeds")
	sdb.VerifAssert(len(got) == len(wants[k]), "number of columns after expanding *")
	if len(got) == len(wants[k]) {
		for i := range got {
			sdb.VerifAssert(got[i] == wants[k][i], "* expands to all columns in definition order, in place")
		}
	}
	_, err = st.expandSelectColumns(sqsql.SelectStmt{Table: "nosuch", Columns: []string{"*"}})
	sdb.VerifAssert(err != nil, "unknown table is an error")
	sdb.VerifReach("end")
}
